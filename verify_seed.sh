#!/bin/bash
# usage: verify_seed.sh <seeded-dir-name> <Cxx>   — confirms a seeded change in a scratch worktree:
# demo fails with the patch / passes without, and the repository's suite has identical outcomes with and without.
d="$1"; id="$2"; wt="/tmp/seed_$id"
src="/verif/seeded/$d"
git -C /repo worktree remove --force "$wt" 2>/dev/null
git -C /repo worktree add -q "$wt" HEAD || exit 2
for f in "$src"/*; do case "$(basename "$f")" in patch.diff|meta.json|verify.log) ;; *) cp -r "$f" "$wt/";; esac; done
# the demos were written in the sub-agents' own worktrees (/tmp/seed_<id><wave letter>): point them at this one
grep -rlE "/tmp/seed_${id}[a-z]" "$wt" --include='*.py' --include='*.yaml' 2>/dev/null | grep -v "^$wt/mpf/" | xargs -r sed -i -E "s#/tmp/seed_${id}[a-z]#$wt#g"
if [ -n "$DEMO_ONLY" ]; then
  # re-run the demos only; keep the suite comparison recorded earlier
  suite_line=$(grep -E "^suite outcomes|^SUITE DIFFERS" "$src/verify.log" 2>/dev/null | head -1)
  {
  echo "== $d ($id) =="
  /venv/bin/python "$wt/demo_seed.py" > /dev/null 2>&1; echo "demo without patch: exit $?"
  (cd "$wt" && git apply "$src/patch.diff") || { echo "patch does not apply"; }
  /venv/bin/python "$wt/demo_seed.py" > /dev/null 2>&1; echo "demo with patch: exit $?"
  echo "${suite_line:-suite comparison not repeated}"
  } > "$src/verify.log" 2>&1
  git -C /repo worktree remove --force "$wt"
  cat "$src/verify.log"
  exit 0
fi
run_suite() { (cd "$wt" && /venv/bin/python -m pytest -q -p no:cacheprovider --timeout=900 --continue-on-collection-errors -rA mpf/tests 2>&1 | grep -E "^(PASSED|FAILED|ERROR|SKIPPED)" | sort); }
{
echo "== $d ($id) =="
/venv/bin/python "$wt/demo_seed.py" > /dev/null 2>&1; echo "demo without patch: exit $?"
run_suite > "$wt/base.txt"
(cd "$wt" && git apply "$src/patch.diff") || { echo "patch does not apply"; exit 2; }
/venv/bin/python "$wt/demo_seed.py" > /dev/null 2>&1; echo "demo with patch: exit $?"
run_suite > "$wt/patched.txt"
if cmp -s "$wt/base.txt" "$wt/patched.txt"; then echo "suite outcomes identical ($(grep -c ^PASSED $wt/base.txt) passed)"; else echo "SUITE DIFFERS:"; diff "$wt/base.txt" "$wt/patched.txt" | head -10; fi
} > "$src/verify.log" 2>&1
git -C /repo worktree remove --force "$wt"
cat "$src/verify.log"
