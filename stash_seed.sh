#!/bin/bash
# usage: stash_seed.sh <Cxx> <wave-letter> <name>  — copies a sub-agent's deliverables from /tmp/seed_<Cxx><letter> to seeded/<Cxx>-<name>
id="$1"; l="$2"; name="$3"; src="/tmp/seed_${id}${l}"; dst="/verif/seeded/${id}-${name}"
mkdir -p "$dst"
(cd "$src" && git diff -- mpf > "$dst/patch.diff")
for f in $(cd "$src" && git status --porcelain | grep '^??' | cut -c4-); do
  case "$f" in patch.diff|*.pyc|__pycache__*) ;; *) cp -r "$src/$f" "$dst/";; esac
done
find "$dst" -name __pycache__ -prune -exec rm -rf {} \;
git -C /repo worktree remove --force "$src"
ls "$dst"
