"""C10 — Hardware switch-to-coil rules match the enabled devices exactly.

Explicit-state BFS over enable / disable / sw_flip / sw_release requests, autofire switch hits (timeout
protection), kickback, game lifecycle (start, drain, tilt, slam tilt, service mode enter/exit, end game)
and time, for flipper wiring variants (dual wound, single wound, EOS with software repulse) and
autofire options (plain, pulse delay, timeout protection) on a fake game with the real tilt mode;
the platform's rule table and the set_*_rule / clear_hw_rule calls are compared with the reference
after every transition.
"""
import os
import sys

sys.path.insert(0, os.path.dirname(os.path.dirname(os.path.abspath(__file__))))

from mc import runner, fakegame  # noqa: E402
from mc.driver import MachineDriver, r6, simple_state  # noqa: E402
from mc.explore import bfs  # noqa: E402

import mpf.platforms.virtual as virtual_mod  # noqa: E402


def _set_delayed_pulse_on_hit_rule(self, enable_switch, coil, delay_time):
    """The virtual platform has no delayed pulse rule; the harness platform records it like the others."""
    self.rules[(enable_switch.hw_switch, coil.hw_driver)] = "delayed_pulse_on_hit"


virtual_mod.VirtualHardwarePlatform.set_delayed_pulse_on_hit_rule = _set_delayed_pulse_on_hit_rule

# wiring table: device -> set of (switch, coil) rules while enabled (from the device documentation)
WIRING = {
    "f_dual": {("s_flip_d", "c_fd_main"), ("s_flip_d", "c_fd_hold")},
    "f_single": {("s_flip_s", "c_fs")},
    "f_eos": {("s_flip_e", "c_fe"), ("s_eos_e", "c_fe")},
    "a_sling": {("s_sling", "c_sling")},
    "a_pop": {("s_pop", "c_pop")},
    "a_to": {("s_to", "c_to")},
    "k1": {("s_kick", "c_kick")},
}
FLIPPER_COILS = ["c_fd_main", "c_fd_hold", "c_fs", "c_fe"]
GROUPS = {"flippers": ["f_dual", "f_single", "f_eos"], "autofire": ["a_sling", "a_pop", "a_to", "k1"],
          # the EOS flipper with software repulse, driven through its physical button and end-of-stroke switches
          "eos": ["f_eos"],
          # one flipper, game lifecycle only, with the ball_starting queue held by a handler (a show or a ball device would
          # do that): tilts, drains and requests land between two balls, while the next ball's start is pending
          "between": ["f_single"]}


class RulesDriver(MachineDriver):
    machine_name = "c10"
    group = "flippers"
    time_horizon = 2.0

    def setup(self):
        fakegame.install(self.m)
        m = self.m
        self.plat = m.default_platform
        self.devs = {}
        for n in GROUPS[self.group]:
            self.devs[n] = (m.flippers.get(n) if n in m.flippers else None) or \
                (m.autofire_coils.get(n) if n in m.autofire_coils else None) or m.kickbacks[n]
        self.all_devs = dict(list(m.flippers.items()) + list(m.autofire_coils.items()) + list(m.kickbacks.items()))
        # reference: enabled flag per device, from requests and lifecycle events only
        self.ref = {n: False for n in self.all_devs}
        self.installed = {}            # (switch, coil) -> number of set calls since last clear
        self.swnum = {s.hw_switch: n for n, s in m.switches.items()}
        self.conum = {c.hw_driver: n for n, c in m.coils.items()}
        for meth in [x for x in dir(self.plat) if x.startswith("set_") and x.endswith("_rule")]:
            setattr(self.plat, meth, self._wrap_set(meth, getattr(self.plat, meth)))
        orig_clear = self.plat.clear_hw_rule

        def clear(switch, coil, _o=orig_clear):
            key = (self.swnum[switch.hw_switch], self.conum[coil.hw_driver])
            self.installed[key] = 0
            return _o(switch, coil)
        self.plat.clear_hw_rule = clear
        self.coil_on = {}
        for cn in FLIPPER_COILS:
            hw = m.coils[cn].hw_driver
            oe, od = hw.enable, hw.disable

            def enable(*a, _o=oe, _n=cn, **k):
                self.coil_on[_n] = True
                return _o(*a, **k)

            def disable(*a, _o=od, _n=cn, **k):
                self.coil_on[_n] = False
                return _o(*a, **k)
            hw.enable, hw.disable = enable, disable
        self.in_play = False
        self.service = False
        self.tilted = False
        m.events.add_handler("ball_started", self._ev, priority=-100, _e="ball_started")
        m.events.add_handler("ball_will_end", self._ev, priority=-100, _e="ball_will_end")
        m.events.add_handler("service_mode_entered", self._ev, priority=-100, _e="service_mode_entered")
        m.events.add_handler("service_mode_exited", self._ev, priority=-100, _e="service_mode_exited")
        m.events.add_handler("tilt", self._ev, priority=-100, _e="tilt")
        self.to_hits = 0
        self.to_reenable_at = None
        self.hold_armed = False
        self.held = None
        m.events.add_handler("ball_starting", self._hold_ball_starting, priority=50)

    def _hold_ball_starting(self, queue=None, **kwargs):
        if self.hold_armed and queue is not None and self.held is None:
            self.hold_armed = False
            queue.wait()
            self.held = queue
            self.stat("ball_starts_held")

    def _wrap_set(self, meth, orig):
        def f(*args, **kwargs):
            sws = [a for a in list(args) + list(kwargs.values()) if a.__class__.__name__ == "SwitchSettings"]
            co = [a for a in list(args) + list(kwargs.values()) if a.__class__.__name__ == "DriverSettings"][0]
            for sw in sws:
                key = (self.swnum[sw.hw_switch], self.conum[co.hw_driver])
                self.installed[key] = self.installed.get(key, 0) + 1
                if self.installed[key] > 1:
                    self.violate("rule-installed-twice", "%s installed the rule %s -> %s a second time without clearing it" %
                                 (meth, key[0], key[1]))
            return orig(*args, **kwargs)
        return f

    def _ev(self, _e, **kwargs):
        if _e == "ball_started":
            self.in_play = True
            self.tilted = False
            if self.m.game and self.m.game.tilted:
                # a tilted machine has dead buttons until the tilt is over: a ball that starts meanwhile enables nothing
                self.stat("ball_started_while_tilted")
                return
            for n in self.ref:
                if n != "k1":
                    self.ref[n] = True
        elif _e == "ball_will_end":
            self.in_play = False
            for n in self.ref:
                self.ref[n] = False
            self.to_reenable_at = None
        elif _e == "service_mode_entered":
            self.service = True
            for n in self.ref:
                if n != "k1":
                    self.ref[n] = False
            self.to_reenable_at = None
        elif _e == "service_mode_exited":
            self.service = False
        elif _e == "tilt":
            self.tilted = True

    # ---- choices ---------------------------------------------------------------------------------
    def ops(self):
        out = []
        for n in GROUPS[self.group]:
            out.append(["enable", n])
            out.append(["disable", n])
        if self.group == "eos":
            for sw in ("s_flip_e", "s_eos_e"):
                out.append(["sw", sw, 0 if self.m.switches[sw].state else 1])
            return out + [["start"], ["drain"]]
        if self.group == "between":
            return out + [["start"], ["drain"], ["tilt"], ["slam"], ["hold"], ["unhold"], ["end_game"]]
        if self.group == "flippers":
            for n in ("f_dual", "f_single"):
                out.append(["flip", n])
                out.append(["release", n])
        else:
            out.append(["hit", "s_to"])
        out += [["start"], ["drain"], ["tilt"], ["slam"], ["service_enter"], ["service_exit"], ["end_game"]]
        return out

    def do_op(self, op):
        m = self.m
        k = op[0]
        if k == "enable":
            m.events.post("%s_enable" % op[1])
            self.ref[op[1]] = True
            if op[1] == "a_to":
                self.to_hits = 0
        elif k == "disable":
            m.events.post("%s_disable" % op[1])
            self.ref[op[1]] = False
            if op[1] == "a_to":
                self.to_reenable_at = None
        elif k == "sw":
            m.switch_controller.process_switch(op[1], op[2], logical=True)
            self.stat("physical_flipper_switch_changes")
        elif k == "flip":
            m.events.post("%s_flip" % op[1])
            self.stat("sw_flips")
        elif k == "release":
            m.events.post("%s_release" % op[1])
        elif k == "hit":
            m.switch_controller.process_switch(op[1], 1, logical=True)
            self.loop.drain()
            m.switch_controller.process_switch(op[1], 0, logical=True)
            self.stat("autofire_hits")
            if self.all_devs["a_to"]._enabled or self.to_hits:
                self.to_hits = min(self.to_hits + 1, 2) if self.ref["a_to"] else 0
        elif k == "start":
            fakegame.press_start(self.sys)
            self.loop.advance(0.05)
        elif k == "drain":
            if m.game and m.game.balls_in_play:
                fakegame.drain_one(self.sys)
                self.loop.advance(0.05)
                self.stat("ball_ends")
        elif k == "tilt":
            m.switch_controller.process_switch("s_tilt", 1, logical=True)
            self.loop.drain()
            m.switch_controller.process_switch("s_tilt", 0, logical=True)
            self.stat("tilts")
        elif k == "slam":
            m.switch_controller.process_switch("s_slam", 1, logical=True)
            self.loop.drain()
            m.switch_controller.process_switch("s_slam", 0, logical=True)
        elif k == "service_enter":
            m.events.post("service_mode_entered")
            self.stat("service_entries")
        elif k == "service_exit":
            m.events.post("service_mode_exited")
        elif k == "end_game":
            if m.game:
                fakegame.end_game(self.sys)
        elif k == "hold":
            self.hold_armed = True
        elif k == "unhold":
            self.hold_armed = False
            if self.held is not None:
                q, self.held = self.held, None
                q.clear()
                self.loop.advance(0.05)

    # ---- oracle ----------------------------------------------------------------------------------
    def rule_table(self):
        return {(self.swnum[k[0]], self.conum[k[1]]) for k in self.plat.rules}

    def oracle(self, choice):
        now = self.loop.time()
        m = self.m
        table = self.rule_table()
        sig_op = choice if isinstance(choice, str) else choice[0]
        # (1) the table is exactly the union of the rules of the devices that report themselves enabled
        exp = set()
        for n, d in self.all_devs.items():
            if d._enabled:
                exp |= WIRING[n]
        if table != exp:
            self.violate("table-vs-enabled:%s" % sig_op, "rule table %r but enabled devices %r need %r" %
                         (sorted(table), sorted(n for n, d in self.all_devs.items() if d._enabled), sorted(exp)))
        # (2) requests and lifecycle decide which devices are enabled (timeout protection of a_to aside)
        for n in GROUPS[self.group]:
            d = self.all_devs[n]
            want = self.ref[n]
            if n == "a_to":
                continue
            if bool(d._enabled) != want:
                self.violate("enabled-state:%s" % sig_op, "%s is %s but the last request/lifecycle event says %s" %
                             (n, "enabled" if d._enabled else "disabled", "enabled" if want else "disabled"))
        # a_to: disabled by request/lifecycle => never enabled (a pending timeout re-enable must have been cancelled)
        if self.group == "autofire" and not self.ref["a_to"] and self.all_devs["a_to"]._enabled:
            self.violate("timeout-reenable-after-disable", "a_to was disabled by request/lifecycle but is enabled again")
        # (3) situations in which cabinet buttons must be dead
        game_on = bool(m.game)
        dead = (not game_on) or (not self.in_play) or self.service or (game_on and m.game.tilted)
        if dead:
            self.stat("dead_states")
            bad = [r for r in table if any(r in WIRING[n] for n in WIRING if n != "k1")]
            # an explicit enable request issued in that situation is honoured by MPF (the statement speaks about the
            # lifecycle transitions); only rules nobody asked for after the transition are judged
            asked = {r for n in self.ref if self.ref[n] for r in WIRING[n]}
            bad = [r for r in bad if r not in asked]
            if bad:
                self.violate("rules-while-dead:%s" % sig_op, "rules %r present while %s" %
                             (sorted(bad), "no game" if not game_on else "ball not in play/tilted/service"))
            on = [c for c in FLIPPER_COILS if self.coil_on.get(c)]
            asked_f = any(self.ref[n] for n in ("f_dual", "f_single", "f_eos"))
            if on and not asked_f:
                self.violate("flipper-coil-energised:%s" % sig_op, "flipper coil(s) %r left enabled while %s" %
                             (on, "no game" if not game_on else "ball not in play/tilted/service"))

    def fingerprint(self):
        m = self.m
        g = m.game
        return (tuple(sorted(self.rule_table())), tuple(sorted((n, bool(d._enabled)) for n, d in self.all_devs.items())),
                tuple(sorted(self.ref.items())), self.in_play, self.service, self.tilted, self.hold_armed, self.held is not None,
                (g.num_players, g.player.number if g.player else None, g.player.ball if g.player else None, g.balls_in_play,
                 g.tilted, g.slam_tilted, g.ending) if g else None,
                tuple(sorted(self.coil_on.items())), tuple(getattr(d, "_sw_flipped", None) for d in self.devs.values()),
                tuple(sorted(self.installed.items())), self.rel_timers(), self.modes_fp(), self.m.playfield.balls,
                len([t for t in self.all_devs["a_to"]._timeout_hits if t > self.loop.time() - 1.0]), self.task_fp(),
                tuple(simple_state(d, now=self.loop.time()) for _, d in sorted(self.all_devs.items())),
                tuple((n, self.m.switches[n].state, r6(min(self.loop.time() - self.m.switches[n].last_change, 1.0)))
                      for n in ("s_flip_e", "s_eos_e")),
                # software rule handlers (EOS repulse) keep their own flags and switch handlers
                tuple(sorted((str(k), simple_state(v, exclude=("_handlers",), now=self.loop.time()), len(getattr(v, "_handlers", ())))
                             for k, v in self._software_handlers())))

    def _software_handlers(self):
        out = []
        for d in self.all_devs.values():
            for r in getattr(d, "_active_rules", []) or []:
                h = getattr(r, "software_rule_handler", None)
                if h is not None:
                    out.append((id(h) and type(h).__name__, h))
        return out

    def observe(self):
        return {"rules": sorted(self.rule_table()), "enabled": sorted(n for n, d in self.all_devs.items() if d._enabled),
                "game": bool(self.m.game), "in_play": self.in_play}


def make(group):
    class D(RulesDriver):
        pass
    D.group = group
    D.__name__ = "Rules_" + group
    return D


def body(ctx):
    quick = ctx.tier == "quick"
    groups = ["flippers", "autofire", "eos", "between"]
    res = bfs([make(g) for g in groups], 6 if quick else 7, observe=True)
    for s in res.samples[:3]:
        ctx.sample(s)
    for sig, (what, hist) in res.violations.items():
        ctx.violation(sig, what, {"group": groups[hist[0][1]], "history": hist[1:]})
    for k, v in res.stats.items():
        ctx.guard(k, v)
    ctx.add(states=res.states, transitions=res.transitions, traces_validated_against_impl=res.transitions,
            levels=res.levels, exhaustive=True)
    ctx.assume("fake game without ball devices (ball search and real drains are not part of this machine); service mode is "
               "represented by its service_mode_entered/exited events", "BFS depth 6 (quick) / 7 (thorough) per device group",
               "an explicit enable request issued while the ball is not in play is honoured by MPF and not judged")
    return ("sw_flips", "autofire_hits", "ball_ends", "tilts", "service_entries", "dead_states", "ball_starts_held")


def replay(ctx, data):
    rp = data["replay"]
    d = make(rp["group"])()
    d.boot()
    for c in rp["history"]:
        d.step(c)
        print("  step %r -> %s" % (c, d.observe()))
    for sig, what in d.violations:
        print("  %s: %s" % (sig, what))
    return not d.violations


if __name__ == "__main__":
    runner.main("C10", "model_checking", body, replay)
