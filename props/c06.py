"""C06 — Game lifecycle: turns, balls and lifecycle events are well-formed.

Explicit-state BFS over start / add-player requests, drains, balls-in-play additions, extra-ball
awards, end_ball / end_game events, tilt and slam tilt, with environment-held waiting handlers on
every lifecycle queue event (so that requests land inside every gap), for several
(balls_per_game, max_players) configurations on a game without ball devices; a grammar automaton
over the posted lifecycle events is the oracle.
"""
import os
import sys

sys.path.insert(0, os.path.dirname(os.path.dirname(os.path.abspath(__file__))))

from mc import runner, fakegame  # noqa: E402
from mc.driver import MachineDriver, simple_state  # noqa: E402
from mc.explore import bfs  # noqa: E402

QUEUE_EVENTS = ["game_starting", "player_adding", "player_turn_starting", "ball_starting", "ball_ending",
                "player_turn_ending", "game_ending"]
EVENTS = ["game_will_start", "game_starting", "game_started", "player_turn_will_start", "player_turn_starting",
          "player_turn_started", "ball_will_start", "ball_starting", "ball_started", "ball_will_end", "ball_ending",
          "ball_ended", "player_turn_will_end", "player_turn_ending", "player_turn_ended", "game_will_end",
          "game_ending", "game_ended", "player_added"]
CONFIGS = {"g11": (1, 1), "g12": (1, 2), "g22": (2, 2), "g23": (2, 3), "g31": (3, 1)}


class Grammar:
    """Automaton over the lifecycle events, written from the statement."""

    def __init__(self, balls_per_game, violate):
        self.bpg = balls_per_game
        self.violate = violate
        self.state = "idle"        # idle | game(3 steps) | between_turns | turn(...) | ball(...) | ending
        self.expect = ["game_will_start"]
        self.players = 0           # players added
        self.turn_player = None
        self.ball_no = {}          # player -> balls played (turns taken)
        self.end_requested = False
        self.slam_requested = False
        self.ball_end_reason = False
        self.extra_pending = {}    # player -> awarded, not yet played
        self.in_ball = False
        self.in_turn = False
        self.games = 0
        self.turn_order = []       # (player, ball) of turns in this game

    def event(self, ev, kw):
        if ev == "player_added":
            self.players += 1
            return
        if ev not in self.expect:
            self.violate("grammar:%s" % ev, "lifecycle event %s%r arrived, the grammar expects one of %r (turns so far %r, "
                         "players %d, end requested %s)" % (ev, {k: v for k, v in kw.items() if k in ("number", "player", "ball")},
                                                            self.expect, self.turn_order, self.players, self.end_requested))
            # resynchronise on the observed event
        nxt = getattr(self, "on_" + ev)(kw)
        self.expect = nxt

    # ---- game ----
    def on_game_will_start(self, kw):
        self.players = 0
        self.ball_no = {}
        self.turn_order = []
        self.end_requested = False
        self.slam_requested = False
        self.extra_pending = {}
        self.games += 1
        return ["game_starting"]

    def on_game_starting(self, kw):
        return ["game_started"]

    def on_game_started(self, kw):
        if self.players < 1:
            self.violate("game-started-without-player", "game_started with no player")
        return ["player_turn_will_start", "game_will_end"]

    # ---- turn ----
    def _next_turn(self):
        """(player, ball) whose turn is due, or None if the game is over."""
        if not self.turn_order:
            return (1, 1)
        p, b = self.turn_order[-1]
        if p < self.players:
            return (p + 1, b)
        if b < self.bpg:
            return (1, b + 1)
        return None

    def on_player_turn_will_start(self, kw):
        num = kw.get("number")
        due = self._next_turn()
        if due is None:
            self.violate("turn-after-last", "player %s gets a turn although every player has played %d ball(s)" %
                         (num, self.bpg))
        elif num != due[0]:
            self.violate("turn-order", "turn of player %s starts, but player %s (ball %s) is due; turns so far %r" %
                         (num, due[0], due[1], self.turn_order))
        if self.end_requested and self.turn_order:
            self.violate("turn-after-end-request", "a new turn (player %s) starts after an end-game/slam-tilt request" % num)
        self.turn_player = num
        self.pending_turn = due if due and due[0] == num else (num, self.ball_no.get(num, 0) + 1)
        return ["player_turn_starting"]

    def on_player_turn_starting(self, kw):
        if kw.get("number") != self.turn_player:
            self.violate("turn-args", "player_turn_starting for player %s inside the turn of %s" % (kw.get("number"), self.turn_player))
        return ["player_turn_started"]

    def on_player_turn_started(self, kw):
        self.in_turn = True
        self.turn_order.append(self.pending_turn)
        self.ball_no[self.turn_player] = self.pending_turn[1]
        self.balls_this_turn = 0
        return ["ball_will_start"]

    def on_player_turn_will_end(self, kw):
        if kw.get("number") != self.turn_player:
            self.violate("turn-args", "player_turn_will_end for player %s inside the turn of %s" % (kw.get("number"), self.turn_player))
        if self.balls_this_turn < 1:
            self.violate("turn-without-ball", "turn of player %s ends without a ball" % self.turn_player)
        return ["player_turn_ending"]

    def on_player_turn_ending(self, kw):
        return ["player_turn_ended"]

    def on_player_turn_ended(self, kw):
        self.in_turn = False
        if self.end_requested:
            return ["game_will_end"]
        if self._next_turn() is None:
            return ["game_will_end"]
        return ["player_turn_will_start"]

    # ---- ball ----
    def on_ball_will_start(self, kw):
        p, b = kw.get("player"), kw.get("ball")
        if p != self.turn_player or b != self.ball_no.get(self.turn_player):
            self.violate("ball-args", "ball_will_start(player=%s, ball=%s) inside the turn of player %s ball %s" %
                         (p, b, self.turn_player, self.ball_no.get(self.turn_player)))
        extra = kw.get("is_extra_ball")
        if self.balls_this_turn >= 1:
            if self.extra_pending.get(self.turn_player, 0) < 1:
                self.violate("unearned-extra-ball", "player %s gets another ball in the same turn without an extra ball award" %
                             self.turn_player)
            else:
                self.extra_pending[self.turn_player] -= 1
        self.balls_this_turn += 1
        self.ball_end_reason = False
        return ["ball_starting"]

    def on_ball_starting(self, kw):
        return ["ball_started"]

    def on_ball_started(self, kw):
        self.in_ball = True
        return ["ball_will_end"]

    def on_ball_will_end(self, kw):
        self.in_ball = False
        return ["ball_ending"]

    def on_ball_ending(self, kw):
        return ["ball_ended"]

    def on_ball_ended(self, kw):
        if self.extra_pending.get(self.turn_player, 0) > 0:
            # one more ball per extra ball awarded; what happens to it after an end_game request is not judged, but a slam
            # tilt ends the game at once: no further ball is served
            if self.slam_requested:
                return ["player_turn_will_end"]
            return ["ball_will_start", "player_turn_will_end"] if self.end_requested else ["ball_will_start"]
        return ["player_turn_will_end"]

    # ---- end ----
    def on_game_will_end(self, kw):
        if not self.end_requested and self._next_turn() is not None and self.turn_order:
            self.violate("early-game-end", "game ends after turns %r although player %s ball %s is due and no end was requested" %
                         (self.turn_order, self._next_turn()[0], self._next_turn()[1]))
        return ["game_ending"]

    def on_game_ending(self, kw):
        return ["game_ended"]

    def on_game_ended(self, kw):
        return ["game_will_start"]

    def key(self):
        return (tuple(self.expect), self.players, self.turn_player, tuple(sorted(self.ball_no.items())),
                self.end_requested, self.slam_requested, tuple(sorted(self.extra_pending.items())), tuple(self.turn_order[-3:]),
                getattr(self, "balls_this_turn", 0))


class GameDriver(MachineDriver):
    machine_name = "c06"
    key = "g11"
    time_horizon = 2.0

    def setup(self):
        fakegame.install(self.m)
        m = self.m
        self.bpg, self.maxp = CONFIGS[self.key]
        self.g = Grammar(self.bpg, self.violate)
        self.hold = set()
        self.waits = {}
        self.trace = []
        for ev in EVENTS:
            m.events.add_handler(ev, self._on, priority=-1000, _e=ev)
        self.ref_bip = 0
        self.reason = False
        self.bip_min, self.bip_max = 0, 0

    def _on(self, _e, queue=None, **kwargs):
        kw = dict(kwargs)
        if "player" in kw and hasattr(kw["player"], "number"):
            kw["player"] = kw["player"].number
        self.trace.append(_e)
        if _e == "ball_will_start":
            self.reason = False     # an end request from here on is honoured (even before the ball has started)
        if _e == "ball_started":
            self.ref_bip = 1
        if _e == "ball_will_end":
            if not self.reason and self.ref_bip > 0:
                self.violate("ball-ended-without-reason", "ball_will_end although balls in play is %s and no end was requested" %
                             self.ref_bip)
            self.ref_bip = 0
        self.g.event(_e, kw)
        g = self.m.game
        if g:
            self.bip_min = min(self.bip_min, g.balls_in_play)
            self.bip_max = max(self.bip_max, g.balls_in_play)
        if _e in self.hold and queue is not None:
            self.hold.discard(_e)
            queue.wait()
            self.waits[_e] = queue
            self.stat("held_queue_events")

    # ---- choices -------------------------------------------------------------------------------
    def ops(self):
        out = [["start"], ["drain"], ["bip_plus"], ["extra_ball"], ["end_ball"], ["end_game"], ["tilt"], ["slam"]]
        for q in QUEUE_EVENTS:
            if q not in self.hold and q not in self.waits:
                out.append(["hold", q])
        for w in sorted(self.waits):
            out.append(["clear", w])
        return out

    def do_op(self, op):
        m = self.m
        g = m.game
        k = op[0]
        if self.waits:
            self.stat("ops_while_queue_event_held")
        if k == "start":
            fakegame.press_start(self.sys)
        elif k == "drain":
            if g and g.balls_in_play > 0:
                self.ref_bip = max(self.ref_bip - 1, 0)
                if self.ref_bip == 0:
                    self.reason = True
                fakegame.drain_one(self.sys)
                self.stat("drains")
        elif k == "bip_plus":
            if g and self.g.in_ball:
                g.balls_in_play += 1
                self.ref_bip = min(self.ref_bip + 1, 3)
        elif k == "extra_ball":
            if g and g.player and self.g.in_turn:
                g.player.extra_balls += 1
                self.g.extra_pending[g.player.number] = self.g.extra_pending.get(g.player.number, 0) + 1
                self.stat("extra_balls")
        elif k == "end_ball":
            if g:
                self.reason = True
                m.events.post("end_ball")
        elif k == "end_game":
            if g:
                self.reason = True
                self.g.end_requested = True
                m.events.post("end_game")
                self.stat("end_game_requests")
        elif k in ("tilt", "slam"):
            if g and not g.ending:
                if k == "slam":
                    self.g.end_requested = True
                    if not g.tilted:
                        self.g.slam_requested = True
                if not g.tilted:
                    # a (slam) tilt while the machine is already tilted is ignored by the tilt mode: not judged
                    self.reason = True
            sw = "s_tilt" if k == "tilt" else "s_slam"
            m.switch_controller.process_switch(sw, 1, logical=True)
            self.loop.drain()
            m.switch_controller.process_switch(sw, 0, logical=True)
        elif k == "hold":
            self.hold.add(op[1])
        elif k == "clear":
            self.waits.pop(op[1]).clear()

    def oracle(self, choice):
        m = self.m
        g = m.game
        if g:
            if not 0 <= g.balls_in_play <= m.ball_controller.num_balls_known:
                self.violate("balls-in-play-range", "balls_in_play = %s (known %s)" % (g.balls_in_play, m.ball_controller.num_balls_known))
        if self.bip_min < 0 or self.bip_max > 3:
            self.violate("balls-in-play-range", "balls_in_play reached %s..%s" % (self.bip_min, self.bip_max))
        quiescent = not self.waits and not self.loop.has_ready() and self.loop.next_deadline() is None
        if quiescent:
            self.stat("quiescent_states")
            if self.g.expect == ["game_will_start"] and self.g.games:
                self.stat("games_completed")
                if m.game is not None or m.modes["game"].active:
                    self.violate("game-not-cleared", "game_ended was posted but machine.game=%r, game mode active=%s" %
                                 (m.game, m.modes["game"].active))
            # a ball whose balls in play reached zero must have ended
            if g and self.g.in_ball and self.reason:
                self.violate("ball-did-not-end", "balls in play reached zero / an end was requested but the ball has not ended "
                             "(expecting %r)" % self.g.expect)

    def fingerprint(self):
        m = self.m
        g = m.game
        return (self.g.key(), tuple(sorted(self.hold)), tuple(sorted(self.waits)), self.ref_bip, self.reason,
                (g.num_players, g.player.number if g.player else None, g.player.ball if g.player else None,
                 g.player.extra_balls if g.player else None, g.balls_in_play, g.tilted, g.slam_tilted, g.ending,
                 g._end_ball_event.is_set() if g._end_ball_event else None) if g else None,
                m.playfield.balls, self.modes_fp(), self.rel_timers(), self.task_fp(),
                simple_state(g, exclude=("player_list", "start_event_kwargs", "event_handlers", "mode_devices", "stop_methods")) if g else None,
                simple_state(m.modes["tilt"], exclude=("event_handlers", "mode_devices", "stop_methods", "start_event_kwargs", "tilt_config")))

    def observe(self):
        g = self.m.game
        return {"config": self.key, "events": self.trace[-12:], "players": g.num_players if g else 0,
                "balls_in_play": g.balls_in_play if g else None}


def make(key):
    class D(GameDriver):
        pass
    D.key = key
    D.config_file = key + ".yaml"
    D.__name__ = "Game_" + key
    return D


def make_focus(key):
    """Long games with the plain alphabet (start / add player, drain, extra ball, end ball, time): reaches turns and
    balls that the full alphabet cannot within its depth."""
    base = make(key)

    class F(base):
        def ops(self):
            out = [["start"], ["drain"], ["extra_ball"], ["end_ball"]]
            # one lifecycle queue event can be held: requests then land between two turns
            q = "player_turn_starting"
            if q not in self.hold and q not in self.waits:
                out.append(["hold", q])
            if q in self.waits:
                out.append(["clear", q])
            return out
    F.__name__ = "GameFocus_" + key
    return F


def body(ctx):
    quick = ctx.tier == "quick"
    keys = ["g12", "g22", "g23"] if quick else sorted(CONFIGS)
    res = bfs([make(k) for k in keys], 5 if quick else 6, observe=True)
    for s in res.samples[:3]:
        ctx.sample(s)
    for sig, (what, hist) in res.violations.items():
        ctx.violation(sig, what, {"config": keys[hist[0][1]], "history": hist[1:]})
    for k, v in res.stats.items():
        ctx.guard(k, v)
    fkeys = ["g12", "g22"] if quick else ["g11", "g12", "g22", "g31"]
    fdepth = 9 if quick else 11
    fres = bfs([make_focus(k) for k in fkeys], fdepth, observe=False)
    for sig, (what, hist) in fres.violations.items():
        if sig not in res.violations:
            ctx.violation(sig, what, {"config": fkeys[hist[0][1]], "history": hist[1:], "focus": True})
    ctx.guard("focus_states", fres.states)
    ctx.add(states=res.states + fres.states, transitions=res.transitions + fres.transitions,
            traces_validated_against_impl=res.transitions + fres.transitions,
            configurations=len(keys), levels=res.levels, focus_levels=fres.levels, focus_depth=fdepth, exhaustive=True)
    ctx.assume("game without ball devices (add_ball stubbed, 3 balls known, as the suite's fake-game test case does); "
               "configurations (balls_per_game, max_players) in %r" % sorted(CONFIGS.values()),
               "requests arriving where the statement is silent (e.g. what an extra ball does after an end-game request) are not judged",
               "BFS depth 5 on 3 configurations (quick) / 6 on all 5 (thorough); focused search (start / drain / extra ball / "
               "end ball / time only) to depth 9 on 2 (quick) / 11 on 4 configurations (thorough)")
    return ("drains", "held_queue_events", "ops_while_queue_event_held", "quiescent_states")


def replay(ctx, data):
    rp = data["replay"]
    d = (make_focus if rp.get("focus") else make)(rp["config"])()
    d.boot()
    for c in rp["history"]:
        d.step(c)
        print("  step %r -> %s" % (c, d.observe()))
    for sig, what in d.violations:
        print("  %s: %s" % (sig, what))
    return not d.violations


if __name__ == "__main__":
    runner.main("C06", "model_checking", body, replay)
