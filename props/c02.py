"""C02 — Queue, relay and boolean events complete exactly once and in order.

(A) explicit-state BFS over handler scenarios (sync / waiting / self-clearing / async-coroutine /
    nested queue event) x every order of clearing waits, resolving futures and posting a second
    queue event, on the real EventManager;
(B) exhaustive enumeration of relay and boolean handler lists;
(C) BFS over a mode with use_wait_queue started by a queue event with waiting handlers on the
    outer event and on mode_<name>_starting.
"""
import asyncio
import itertools
import os
import sys

sys.path.insert(0, os.path.dirname(os.path.dirname(os.path.abspath(__file__))))

from mc import runner  # noqa: E402
from mc.boot import System  # noqa: E402
from mc.driver import MachineDriver  # noqa: E402
from mc.explore import bfs, pmap, NPROC  # noqa: E402

KINDS = ("S", "W", "I", "C", "A", "N")


def scenarios(maxlen):
    out = []
    for n in range(1, maxlen + 1):
        for kinds in itertools.product(KINDS, repeat=n):
            if kinds.count("N") > 1 or kinds.count("A") > 2:
                continue
            out.append((kinds, tuple(range(n, 0, -1))))        # distinct descending priorities
            if n >= 2:
                out.append((kinds, (2,) * n))                   # all tied
    return out


class Instance:
    def __init__(self, name, nhandlers):
        self.name = name
        self.n = nhandlers
        self.calls = []           # handler indices in call order
        self.waits = {}           # handler index -> "open" / "cleared"
        self.cb = 0
        self.cb_kwargs = None


class QueueDriver(MachineDriver):
    machine_name = "null"
    maxlen = 3
    SCEN = None

    def setup(self):
        self.em = self.m.events
        self.scen = None
        self.inst = {}            # name -> Instance
        self.queues = {}          # (inst, idx) -> QueuedEvent
        self.futures = {}         # (inst, idx) -> Future
        self.posted = []
        self.prios = {}

    # ---- handlers ------------------------------------------------------------------------------
    def _pre_call(self, inst, idx):
        I = self.inst[inst]
        open_w = [k for k, v in I.waits.items() if v == "open"]
        if open_w:
            self.violate("handler-ran-during-wait", "%s: handler #%d invoked while the wait of handler(s) %r is "
                         "outstanding" % (inst, idx, open_w))
        if I.calls:
            lastp = self.prios[inst][I.calls[-1]]
            if self.prios[inst][idx] > lastp:
                self.violate("queue-priority-order", "%s: handler #%d (priority %d) ran after #%d (priority %d)" %
                             (inst, idx, self.prios[inst][idx], I.calls[-1], lastp))
        if idx in I.calls:
            self.violate("handler-twice", "%s: handler #%d invoked twice" % (inst, idx))
        if I.cb:
            self.violate("handler-after-callback", "%s: handler #%d ran after the completion callback" % (inst, idx))
        I.calls.append(idx)

    def _mk(self, inst, idx, kind):
        def wait(queue):
            queue.wait()
            self.inst[inst].waits[idx] = "open"
            self.queues[(inst, idx)] = queue

        def clear():
            self.queues.pop((inst, idx)).clear()
            self.inst[inst].waits[idx] = "cleared"

        if kind == "A":
            async def coro(**kwargs):
                self._pre_call(inst, idx)
                self.inst[inst].waits[idx] = "open"
                fut = asyncio.Future()
                self.futures[(inst, idx)] = fut
                await fut
                self.inst[inst].waits[idx] = "cleared"
            return coro

        def handler(queue, **kwargs):
            self._pre_call(inst, idx)
            if kind == "W":
                wait(queue)
            elif kind == "I":
                wait(queue)
                clear()
            elif kind == "C":
                wait(queue)
                self.loop.call_soon(clear)
            elif kind == "N":
                wait(queue)
                self._post("n")
                self.nested_parent = (inst, idx, clear)
        handler.clear = clear
        return handler

    def _register(self, inst, kinds, prios):
        self.inst[inst] = Instance(inst, len(kinds))
        self.prios[inst] = prios
        for idx, (k, p) in enumerate(zip(kinds, prios)):
            h = self._mk(inst, idx, k)
            if k == "A":
                self.em.add_async_handler(inst, h, priority=p)
            else:
                self.em.add_handler(inst, h, priority=p)

    def _post(self, inst):
        def cb(**kwargs):
            I = self.inst[inst]
            I.cb += 1
            if I.cb > 1:
                self.violate("callback-twice", "%s: completion callback ran %d times" % (inst, I.cb))
            if len(I.calls) != I.n:
                self.violate("callback-before-handlers", "%s: callback ran after %d of %d handlers" %
                             (inst, len(I.calls), I.n))
            open_w = [k for k, v in I.waits.items() if v == "open"]
            if open_w:
                self.violate("callback-before-clear", "%s: callback ran while wait(s) %r outstanding" % (inst, open_w))
            if inst == "n":
                _, _, clear = self.nested_parent
                clear()
        self.posted.append(inst)
        self.em.post_queue(inst, callback=cb)

    # ---- choices -------------------------------------------------------------------------------
    def ops(self):
        if self.scen is None:
            return [["scenario", i] for i in range(len(self.SCEN))]
        out = []
        for (inst, idx) in sorted(self.queues):
            kind = self.kinds[inst][idx]
            if kind in ("W",):
                out.append(["clear", inst, idx])
        for (inst, idx), f in sorted(self.futures.items()):
            if not f.done():
                out.append(["resolve", inst, idx])
        if "r" not in self.posted:
            out.append(["post", "r"])
        return out

    def do_op(self, op):
        if op[0] == "scenario":
            self.scen = op[1]
            kinds, prios = self.SCEN[op[1]]
            self.kinds = {"q": kinds, "r": ("W",), "n": ("W", "S")}
            self._register("q", kinds, prios)
            self._register("r", ("W",), (1,))
            self._register("n", ("W", "S"), (2, 1))
            self._post("q")
            if len(set(prios)) < len(prios):
                self.stat("tied_priorities")
        elif op[0] == "clear":
            _, inst, idx = op
            I = self.inst[inst]
            others = [k for k, v in I.waits.items() if v == "open" and k != idx]
            self.queues.pop((inst, idx)).clear()
            I.waits[idx] = "cleared"
            self.stat("clears")
            if len([1 for i2 in self.inst.values() for v in i2.waits.values() if v == "open"]) >= 1:
                self.stat("clear_while_other_wait_open")
        elif op[0] == "resolve":
            self.futures[(op[1], op[2])].set_result(True)
            self.stat("resolves")
        elif op[0] == "post":
            self._post(op[1])
            self.stat("second_queue_event")

    def oracle(self, choice):
        if self.scen is None:
            return
        # quiescence: nothing left to clear/resolve and the loop idle -> everything posted has completed
        pending_env = [o for o in self.ops() if o[0] in ("clear", "resolve")]
        if not pending_env and not self.loop.has_ready():
            self.stat("quiescent_states")
            for inst in self.posted:
                I = self.inst[inst]
                if I.cb != 1:
                    self.violate("never-completes", "%s: posted queue event did not complete (callback ran %d times, "
                                 "%d/%d handlers ran, waits %r)" % (inst, I.cb, len(I.calls), I.n, I.waits))
        if any(k == "N" for k in self.kinds["q"]) and "n" in self.posted:
            self.stat("nested_queue_events")

    def fingerprint(self):
        return (self.scen, tuple((n, tuple(I.calls), tuple(sorted(I.waits.items())), I.cb)
                                 for n, I in sorted(self.inst.items())), tuple(self.posted), self.task_fp())

    def observe(self):
        return {"scenario": None if self.scen is None else self.SCEN[self.scen],
                "instances": {n: {"calls": I.calls, "waits": I.waits, "callback": I.cb} for n, I in self.inst.items()}}


def make_queue_driver(maxlen):
    class D(QueueDriver):
        SCEN = scenarios(maxlen)
    D.maxlen = maxlen
    return D


# ================================================================================================
# (B) relay / boolean
# ================================================================================================
# the last value is a "blocking" result (as returned by the blocking config player / shots with blocking profiles); none of
# the handlers here has a blocking facility, so it skips nobody - what a handler returns must still be honoured after it
RETS = (None, {"a": 1}, {"a": 2, "b": 1}, True, False, 0, {"_min_priority": {"all": 0}})


def _relay_bool_worker(arg):
    wid, n, maxh = arg
    sysm = System("null")
    em = sysm.machine.events
    viols = {}
    count = 0
    stops = relays = 0
    outcomes = set()
    idx = 0
    for nh in range(1, maxh + 1):
        for rets in itertools.product(range(len(RETS)), repeat=nh):
            for prios in (tuple(range(nh, 0, -1)), (1,) * nh):
                for kind in ("relay", "boolean"):
                    for posted, hkw in (({"x": 0}, False), ({}, True), ({"x": 0}, True)):
                        idx += 1
                        if idx % n != wid:
                            continue
                        count += 1
                        log = []
                        keys = []
                        for i in range(nh):
                            def h(_i=i, **kwargs):
                                log.append((_i, {k: v for k, v in kwargs.items()}))
                                r = RETS[rets[_i]]
                                return dict(r) if isinstance(r, dict) else r
                            keys.append(em.add_handler("ev", h, priority=prios[i], **({"tag": i} if hkw else {})))
                        res = []
                        if kind == "relay":
                            em.post_relay("ev", callback=lambda **kw: res.append(kw), **posted)
                        else:
                            em.post_boolean("ev", callback=lambda **kw: res.append(kw), **posted)
                        em.process_event_queue()
                        sysm.loop.drain()
                        em.remove_handlers_by_keys(keys)
                        # ---- oracle ----
                        prog = {"kind": kind, "returns": [RETS[r] for r in rets], "priorities": prios, "posted": posted, "handler_kwargs": hkw}
                        called = [i for i, _ in log]

                        def bad(sig, msg):
                            if sig not in viols:
                                viols[sig] = (msg, prog, [(i, kw) for i, kw in log], res)
                        if len(res) != 1:
                            bad("%s-callback-count" % kind, "callback ran %d times" % len(res))
                            continue
                        if kind == "relay":
                            # each handler sees posted kwargs updated by all earlier handlers' dicts
                            cur = dict(posted)
                            seen = set()
                            for i, kw in log:
                                want = dict(cur, tag=i) if hkw else cur      # the handler's registered kwargs are merged in (they win)
                                if kw != want:
                                    bad("relay-args", "handler #%d received %r, expected %r" % (i, kw, want))
                                r = RETS[rets[i]]
                                if isinstance(r, dict):
                                    cur = dict(cur)
                                    cur.update(r)
                                    relays += 1
                                seen.add(i)
                            if sorted(called) != list(range(nh)):
                                bad("relay-complete", "handlers called %r of %d" % (called, nh))
                            final = {k: v for k, v in res[0].items() if k != "ev_result"}
                            if final != cur:
                                bad("relay-result", "callback got %r, expected final arguments %r" % (res[0], cur))
                        else:
                            # stops at the first handler returning False and reports that result
                            stop_at = None
                            for pos, (i, kw) in enumerate(log):
                                if RETS[rets[i]] is False:
                                    stop_at = pos
                                    break
                            if stop_at is not None:
                                stops += 1
                                if len(log) != stop_at + 1:
                                    bad("boolean-continued", "handlers %r ran after #%d returned False" %
                                        (called[stop_at + 1:], called[stop_at]))
                                if res[0].get("ev_result") is not False:
                                    bad("boolean-result", "a handler returned False but the callback got %r" % (res[0],))
                            else:
                                if sorted(called) != list(range(nh)):
                                    bad("boolean-complete", "no handler returned False but only %r of %d ran" % (called, nh))
                                if res[0].get("ev_result") is False:
                                    bad("boolean-result", "no handler returned False but callback got ev_result=False")
                            for i, kw in log:
                                if {k: v for k, v in kw.items() if k != "_min_priority"} != (dict(posted, tag=i) if hkw else posted):
                                    bad("boolean-args", "handler #%d received %r" % (i, kw))
                        ps = [prios[i] for i in called]
                        if any(ps[k] < ps[k + 1] for k in range(len(ps) - 1)):
                            bad("%s-priority" % kind, "handlers ran in priority order %r" % ps)
                        outcomes.add((kind, tuple(called), repr(sorted(res[0].items()))))
                        if sysm.loop.exc_log:
                            bad("%s-exception" % kind, repr(sysm.loop.exc_log[0]))
                            sysm.loop.exc_log = []
    sysm.close()
    return count, viols, stops, relays, len(outcomes)


# ================================================================================================
# (C) mode with wait queue started by a queue event
# ================================================================================================
class ModeQueueDriver(MachineDriver):
    machine_name = "c02"
    VARIANTS = [(a, b, c) for a in (False, True) for b in (False, True) for c in (False, True)]
    # (waiting handler on mode_mq_starting, waiting handler on q_start below the mode, waiting handler on mp_starting)

    def setup(self):
        self.em = self.m.events
        self.variant = None
        self.waits = {}         # name -> queue (open)
        self.cb = 0
        self.posted = False
        self.log_ev = []
        for ev in ("mode_mq_started", "mode_mq_stopped", "mode_mp_started"):
            self.em.add_handler(ev, self._on, _ev=ev)
        self.mq_stopped_before_cb = None

    def _on(self, _ev, **kwargs):
        self.log_ev.append(_ev)

    def _waiter(self, name):
        def h(queue, **kwargs):
            try:
                queue.wait()
            except AssertionError as e:
                self.violate("double-lock", "waiting handler %s: %s on the queue object it was handed" % (name, e))
                return
            self.waits[name] = queue
        return h

    def ops(self):
        if self.variant is None:
            return [["variant", i] for i in range(len(self.VARIANTS))]
        out = []
        if not self.posted:
            out.append(["post_q_start"])
        for n in sorted(self.waits):
            out.append(["clear", n])
        if self.m.modes["mq"].active and not self.m.modes["mq"].stopping:
            out.append(["stop_mq"])
        return out

    def do_op(self, op):
        if op[0] == "variant":
            self.variant = op[1]
            a, b, c = self.VARIANTS[op[1]]
            if a:
                self.em.add_handler("mode_mq_starting", self._waiter("mq_starting"))
            if b:
                self.em.add_handler("q_start", self._waiter("q_start_low"), priority=1)
            if c:
                self.em.add_handler("mode_mp_starting", self._waiter("mp_starting"))
        elif op[0] == "post_q_start":
            self.posted = True

            def cb(**kwargs):
                self.cb += 1
                mq = self.m.modes["mq"]
                if mq.active or mq.starting:
                    self.violate("callback-before-mode-wait-cleared", "q_start completed while mode mq (use_wait_queue) "
                                 "is still %s" % ("active" if mq.active else "starting"))
                # only waits registered by q_start's own handlers count (waits on the nested
                # mode_<m>_starting events belong to those events)
                if "q_start_low" in self.waits:
                    self.violate("callback-before-clear", "q_start completed with the wait of its handler q_start_low "
                                 "outstanding")
            self.em.post_queue("q_start", callback=cb)
        elif op[0] == "clear":
            self.waits.pop(op[1]).clear()
            self.stat("clears")
        elif op[0] == "stop_mq":
            self.m.modes["mq"].stop()
            self.stat("mode_stops")

    def oracle(self, choice):
        if self.cb > 1:
            self.violate("callback-twice", "q_start callback ran %d times" % self.cb)
        if self.posted and not self.waits and not self.loop.has_ready():
            mq = self.m.modes["mq"]
            if not mq.active and not mq.starting and not mq.stopping:
                self.stat("quiescent_states")
                if "mode_mq_stopped" in self.log_ev and self.cb != 1:
                    self.violate("never-completes", "q_start never completed although every wait was cleared and "
                                 "mode mq stopped (callback ran %d times)" % self.cb)
                if "mode_mq_started" not in self.log_ev and not self.violations:
                    self.violate("mode-never-started", "mode mq never became active although nothing blocks it")

    def fingerprint(self):
        mq, mp = self.m.modes["mq"], self.m.modes["mp"]
        return (self.variant, self.posted, tuple(sorted(self.waits)), self.cb, mq.active, mq.starting, mq.stopping,
                mp.active, mp.starting, tuple(self.log_ev), self.task_fp())

    def observe(self):
        return {"variant": None if self.variant is None else self.VARIANTS[self.variant], "events": self.log_ev,
                "callback": self.cb, "open_waits": sorted(self.waits)}


# ================================================================================================
def body(ctx):
    quick = ctx.tier == "quick"
    states = trans = 0
    detail = {}
    for name, drv, depth in (("queue", make_queue_driver(3 if quick else 4), 9 if quick else 12),
                             ("mode_wait_queue", ModeQueueDriver, 8 if quick else 10)):
        res = bfs(drv, depth, observe=True)
        states += res.states
        trans += res.transitions
        detail[name] = {"depth": depth, "states": res.states, "transitions": res.transitions,
                        "frontier_emptied": res.frontier_emptied, "levels": res.levels, "stats": res.stats}
        for s in res.samples[:2]:
            ctx.sample({"search": name, **s})
        for sig, (what, hist) in res.violations.items():
            ctx.violation("%s:%s" % (name, sig), what, {"search": name, "history": hist,
                                                        "maxlen": 3 if quick else 4})
        for k, v in res.stats.items():
            ctx.guard(k, v)
    maxh = 4 if quick else 5
    n = NPROC
    total = stops = relays = outc = 0
    for count, viols, st, rl, oc in pmap(_relay_bool_worker, [(w, n, maxh) for w in range(n)], chunksize=1, workers=n):
        total += count
        stops += st
        relays += rl
        outc += oc
        for sig, (msg, prog, log, res) in viols.items():
            ctx.violation("relaybool:%s" % sig, msg, {"search": "relaybool", "program": prog, "log": log, "result": res})
    ctx.guard("boolean_stops", stops)
    ctx.guard("relay_updates", relays)
    detail["relay_boolean"] = {"programs": total, "max_handlers": maxh, "distinct_outcomes": outc}
    ctx.add(states=states, transitions=trans, traces_validated_against_impl=trans + total, searches=detail,
            exhaustive=True, evaluations=total, distinct_nontrivial=outc)
    ctx.assume("<=3 (quick) / <=4 (thorough) handlers per queue event, one nested queue event, one concurrent queue "
               "event; relay/boolean lists up to 4/5 handlers over 7 return values (incl. a blocking result)",
               "the BFS frontier empties: every order of clears/resolves/posts is covered for each scenario")
    return ("clears", "resolves", "second_queue_event", "nested_queue_events", "quiescent_states", "tied_priorities",
            "clear_while_other_wait_open", "boolean_stops", "relay_updates", "mode_stops")


def replay(ctx, data):
    rp = data["replay"]
    if rp["search"] == "relaybool":
        print("  program:", rp["program"], "\n  log:", rp["log"], "\n  result:", rp["result"])
        return False
    drv = make_queue_driver(rp.get("maxlen", 3)) if rp["search"] == "queue" else ModeQueueDriver
    d = drv()
    d.boot()
    for c in rp["history"]:
        d.step(c)
        print("  step %r -> %s" % (c, d.observe()))
    for sig, what in d.violations:
        print("  %s: %s" % (sig, what))
    return not d.violations


if __name__ == "__main__":
    runner.main("C02", "model_checking", body, replay)
