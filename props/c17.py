"""C17 — Shows run on schedule without drift and clean up after themselves.

Explicit-state BFS over play (speed / loops / start step / sync / priority variants), stop, pause,
resume, advance, step_back, update(speed), a second show on the same light, and time choices
(on time, woken late, before the deadline); reference schedule per running show written from the
statement; a long-run drift case (1000 loops with late wake-ups) is executed once.
"""
import os
import sys

sys.path.insert(0, os.path.dirname(os.path.dirname(os.path.abspath(__file__))))

from mc import runner  # noqa: E402
from mc.boot import System  # noqa: E402
from mc.driver import MachineDriver, r6, simple_state  # noqa: E402
from mc.explore import bfs  # noqa: E402

EPS = 1e-6
DUR = {"sh1": [0.25, 0.5, 0.25], "sh2": [0.125, 0.125, 0.125], "sh3": [0.25, 0.25, -1]}      # -1: the show holds on that step
PLAYS = [
    ("sh1", dict(speed=1, loops=0, start_step=1, sync_ms=0, priority=0)),
    ("sh1", dict(speed=2, loops=1, start_step=1, sync_ms=0, priority=0)),
    ("sh1", dict(speed=1, loops=-1, start_step=2, sync_ms=0, priority=0)),
    ("sh1", dict(speed=1, loops=0, start_step=-1, sync_ms=500, priority=0)),
    ("sh2", dict(speed=1, loops=1, start_step=1, sync_ms=0, priority=1)),
    ("sh3", dict(speed=1, loops=0, start_step=1, sync_ms=0, priority=0)),
]


class RefShow:
    """Reference schedule of one running show (from the statement)."""

    def __init__(self, name, cfg, now):
        self.name = name
        self.d = DUR[name]
        self.n = len(self.d)
        self.speed = float(cfg["speed"])
        self.loops = cfg["loops"]
        ss = cfg["start_step"]
        self.next_index = ss - 1 if ss > 0 else (ss % self.n if ss < 0 else 0)
        self.next_time = now
        if cfg["sync_ms"]:
            sy = cfg["sync_ms"] / 1000.0
            self.next_time = now + sy - (now % sy)
        self.running = True         # a step is scheduled
        self.stopped = False
        self.expected = []          # (scheduled time, what) produced by run_due
        self.played = False
        self.holding = False

    def _run_step(self, extra=None):
        """Execute the step that is due at self.next_time."""
        ev = []
        if extra:
            ev.append(extra)
        if self.next_index < 0:
            self.next_index %= self.n
        if self.next_index >= self.n:
            if self.loops > 0:
                self.loops -= 1
                self.next_index = 0
                ev.append("looped")
            elif self.loops < 0:
                self.next_index = 0
                ev.append("looped")
            else:
                self.stopped = True
                self.running = False
                for e in ev + ["stopped", "completed"]:
                    self.expected.append((self.next_time, "%s_%s" % (self.name, e)))
                return
        idx = self.next_index
        self.expected.append((self.next_time, "%s_s%d" % (self.name, idx + 1)))
        for e in ev:
            self.expected.append((self.next_time, "%s_%s" % (self.name, e)))
        self.next_index += 1
        if self.d[idx] < 0:
            # a step of duration -1: the show holds here until it is stopped (no further step is scheduled)
            self.running = False
            self.holding = True
            return
        self.next_time += self.d[idx] / self.speed
        self.running = True

    def start_now(self):
        self.played = True
        self._run_step("played")

    def run_due(self, now):
        """All steps whose scheduled time has passed (a late wake-up runs them late, on the same grid)."""
        guard = 0
        while self.running and not self.stopped and self.next_time <= now + EPS and guard < 50:
            guard += 1
            if not self.played:
                self.start_now()
            else:
                self._run_step()

    def key(self, now):
        return (self.name, self.next_index, r6(self.next_time - now) if self.running else None, self.loops, self.speed,
                self.running, self.stopped, self.played, self.holding)


class ShowDriver(MachineDriver):
    machine_name = "c17"
    offer_late = True
    offer_hold = True
    late = 0.05

    def setup(self):
        m = self.m
        self.shows = []         # (RefShow, RunningShow)
        self.evlog = []
        self.seen = 0
        names = []
        for sh in ("sh1", "sh2", "sh3"):
            names += ["%s_s%d" % (sh, i) for i in (1, 2, 3)] + ["%s_%s" % (sh, e) for e in
                                                                ("played", "looped", "completed", "stopped")]
        for n in names:
            m.events.add_handler(n, self._on, _e=n)
        self.late_steps = 0

    def _on(self, _e, **kwargs):
        self.evlog.append((self.loop.time(), _e))

    def ops(self):
        out = []
        if len(self.shows) < 2:
            for i, (name, _) in enumerate(PLAYS):
                if not any(r.name == name and not r.stopped for r, _ in self.shows):
                    out.append(["play", i])
        for i, (r, _) in enumerate(self.shows):
            if not r.stopped and r.holding:
                out += [["stop", i]]        # what resume / advance do to a show holding on its last step is not judged
            elif not r.stopped:
                out += [["stop", i], ["pause", i], ["speed2", i]]
                if r.played:        # what these do to a show still waiting for its sync start is not judged
                    out += [["resume", i], ["advance", i], ["step_back", i]]
        return out

    def do_op(self, op):
        now = self.loop.time()
        k = op[0]
        if k == "play":
            name, cfg = PLAYS[op[1]]
            ev = {("events_when_%s" % e): ["%s_%s" % (name, e)] for e in ("played", "looped", "completed", "stopped")}
            rs = self.m.shows[name].play(**cfg, **ev)
            ref = RefShow(name, cfg, now)
            self.shows.append((ref, rs))
            if not cfg["sync_ms"]:
                ref.start_now()
            self.stat("plays")
            return
        ref, rs = self.shows[op[1]]
        if k == "stop":
            rs.stop()
            if not ref.stopped:
                ref.stopped = True
                ref.running = False
                ref.expected.append((now, "%s_stopped" % ref.name))
            self.stat("stops")
        elif k == "pause":
            rs.pause()
            ref.running = False
        elif k == "resume":
            rs.resume()
            if ref.played:
                ref.next_time = now
                ref._run_step()
            else:
                ref.next_time = now
                ref.start_now()
            self.stat("resumes")
        elif k == "advance":
            rs.advance()
            ref.next_time = now
            ref.played = True
            ref._run_step()
        elif k == "step_back":
            rs.step_back()
            ref.next_time = now
            ref.next_index -= 2
            ref.played = True
            ref._run_step()
        elif k == "speed2":
            rs.update(speed=2.0)
            ref.speed = 2.0

    def oracle(self, choice):
        now = self.loop.time()
        if choice in ("T", "T+", "H"):
            for ref, _ in self.shows:
                ref.run_due(now)
            if choice == "T+":
                self.stat("late_wakeups")
        new = self.evlog[self.seen:]
        self.seen = len(self.evlog)
        exp = []
        for ref, _ in self.shows:
            exp += ref.expected
            ref.expected = []
        got = sorted((e for _, e in new))
        want = sorted(e for _, e in exp)
        sig_op = choice if isinstance(choice, str) else choice[0]
        if got != want:
            self.violate("schedule:%s" % sig_op, "at t=%.3f after %r the show posted %r, the reference schedule expects %r" %
                         (now - self.t0, choice, [(round(t - self.t0, 3), e) for t, e in new],
                          [(round(t - self.t0, 3), e) for t, e in exp]))
        else:
            # steps may run late (woken late) but never early, and never later than this wake-up
            for (t, e) in new:
                sched = [ts for ts, ee in exp if ee == e]
                if sched and min(sched) > t + EPS:
                    self.violate("step-early", "%s ran at %.3f before its scheduled time %.3f" % (e, t - self.t0, min(sched) - self.t0))
            if new:
                self.stat("steps_checked", len(new))
        # every scheduled step needs a timer; drift shows up as a timer at the wrong instant
        for ref, rs in self.shows:
            if ref.running and not ref.stopped:
                nd = [h._when for h in self.loop.live_timers()]
                if not any(abs(w - ref.next_time) < 1e-6 for w in nd):
                    self.violate("next-step-time", "show %s: next step is due at t=%.4f but the loop timers are at %r" %
                                 (ref.name, ref.next_time - self.t0, [round(w - self.t0, 4) for w in nd]))
            if ref.stopped != bool(rs.stopped):
                self.violate("stopped-flag", "show %s stopped=%s, reference %s" % (ref.name, rs.stopped, ref.stopped))
        # clean-up: a stopped show leaves no entry under its context
        for ref, rs in self.shows:
            if ref.stopped:
                for ln in ("l1", "l2"):
                    if any(e.key == rs.context for e in self.m.lights[ln].stack):
                        self.violate("context-left", "show %s stopped but light %s still has an entry of its context %s" %
                                     (ref.name, ln, rs.context))
        if self.shows and all(r.stopped for r, _ in self.shows):
            self.stat("all_stopped_states")
            for ln in ("l1", "l2"):
                if self.m.lights[ln].stack:
                    self.violate("lights-not-restored", "all shows stopped but light %s stack is %r" % (ln, self.m.lights[ln].stack))

    def fingerprint(self):
        now = self.loop.time()
        return (tuple(r.key(now) for r, _ in self.shows), self.rel_timers(), r6(now % 0.5),     # sync depends on absolute time
                tuple(simple_state(rs, exclude=("show", "show_steps", "callback", "start_callback", "id", "context", "show_config"),
                                   now=now) for _, rs in self.shows),
                tuple(tuple(sorted((e.priority, tuple(e.dest_color) if e.dest_color is not None else None) for e in self.m.lights[l].stack))
                      for l in ("l1", "l2")))

    def observe(self):
        return {"events": [(r6(t - self.t0), e) for t, e in self.evlog][-10:],
                "l1": [(e.priority, tuple(e.dest_color) if e.dest_color is not None else None) for e in self.m.lights["l1"].stack]}


class NestedDriver(MachineDriver):
    """A looping parent show (priority 10) whose only step plays sh2 as a nested show, next to a rival entry on the same
    light: every run of the nested show must look like the first one (a show leaves nothing behind, not even in its own
    definition), and stopping the parent removes everything it set."""
    machine_name = "c17"

    def setup(self):
        self.parent = None
        self.m.lights["l1"].color("blue", priority=15, key="rival")
        self.loop.drain()
        self.plays = 0

    def ops(self):
        return [["playp"]] if self.parent is None else [["stopp"]]

    def do_op(self, op):
        if op[0] == "playp":
            self.parent = self.m.shows["shp"].play(priority=10, loops=-1)
            self.plays += 1
            self.stat("nested_parent_plays")
        else:
            self.parent.stop()
            self.parent = None

    def oracle(self, choice):
        stack = [(e.priority, str(e.key)) for e in self.m.lights["l1"].stack]
        others = [x for x in stack if x[1] != "rival"]
        if self.parent is None:
            if others or len(stack) != 1:
                self.violate("nested:left-behind", "the parent show is stopped but l1's stack is %r" % (stack,))
            return
        if others:
            self.stat("nested_entries_checked")
        for prio, key in others:
            if prio != 10:
                self.violate("nested:priority", "the nested show (own priority 0, parent 10) put an entry of priority %d on l1 "
                             "at t=%.3f (play #%d of the parent); its first run used 10" % (prio, self.loop.time() - self.t0, self.plays))

    def fingerprint(self):
        now = self.loop.time()
        return (self.parent is not None, self.plays > 1, self.rel_timers(),
                tuple(sorted((e.priority, str(e.key) == "rival", tuple(e.dest_color) if e.dest_color is not None else None)
                             for e in self.m.lights["l1"].stack)),
                repr(self.m.shows["shp"].show_steps) if hasattr(self.m.shows["shp"], "show_steps") else None,
                None if self.parent is None else simple_state(self.parent, exclude=("show", "show_steps", "callback", "start_callback",
                                                                                     "id", "context", "show_config"), now=now))

    def observe(self):
        return {"l1": [(e.priority, str(e.key)) for e in self.m.lights["l1"].stack]}


def long_run(ctx):
    """1000 loops of a 3 x 0.125 s show at speed 3 with every 7th timer woken late: no cumulative drift."""
    sysm = System("c17")
    m = sysm.machine
    times = []
    m.events.add_handler("sh2_s1", lambda **kwargs: times.append(sysm.loop.time()))
    t0 = sysm.loop.time()
    m.shows["sh2"].play(speed=3, loops=1000, sync_ms=0)
    sysm.loop.drain()
    n = 0
    while n < 4000:
        n += 1
        if not sysm.loop.fire_next(0.01 if n % 7 == 0 else 0.0):
            break
    period = 3 * 0.125 / 3
    bad = 0
    for k, t in enumerate(times):
        ideal = t0 + k * period
        if not (ideal - 1e-6 <= t <= ideal + 0.01 + 1e-6):
            bad += 1
            if bad == 1:
                ctx.violation("long-run-drift", "loop %d of show sh2 (speed 3) started at t=%.6f, schedule says %.6f" %
                              (k, t - t0, ideal - t0), {"long_run": True})
    ctx.guard("long_run_loops", len(times))
    sysm.close()
    return len(times)


def body(ctx):
    quick = ctx.tier == "quick"
    res = bfs(ShowDriver, 5 if quick else 6, observe=True)
    for s in res.samples[:3]:
        ctx.sample(s)
    for sig, (what, hist) in res.violations.items():
        ctx.violation(sig, what, {"history": hist})
    for k, v in res.stats.items():
        ctx.guard(k, v)
    nres = bfs(NestedDriver, 8 if quick else 12, observe=False)
    for sig, (what, hist) in nres.violations.items():
        ctx.violation(sig, what, {"history": hist, "nested": True})
    for k, v in nres.stats.items():
        ctx.guard(k, v)
    loops = long_run(ctx)
    ctx.add(states=res.states, transitions=res.transitions, traces_validated_against_impl=res.transitions + 1,
            levels=res.levels, long_run_loops=loops, exhaustive=True)
    ctx.assume("two shows with binary-exact step durations on two lights; play variants %r" % [p[1] for p in PLAYS],
               "late wake-ups delay a step by 50 ms; the next step must stay on the original grid",
               "BFS depth 5 (quick) / 6 (thorough); at most two shows at a time")
    return ("plays", "stops", "resumes", "late_wakeups", "steps_checked", "all_stopped_states", "long_run_loops",
            "nested_parent_plays", "nested_entries_checked")


def replay(ctx, data):
    rp = data["replay"]
    if rp.get("long_run"):
        long_run(ctx)
        return not ctx.violations
    d = NestedDriver() if rp.get("nested") else ShowDriver()
    d.boot()
    for c in rp["history"]:
        d.step(c)
        print("  step %r -> %s" % (c, d.observe()))
    for sig, what in d.violations:
        print("  %s: %s" % (sig, what))
    return not d.violations


if __name__ == "__main__":
    runner.main("C17", "model_checking", body, replay)
