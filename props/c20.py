"""C20 — Credits: balance follows the pricing table and stays within bounds.

Explicit-state BFS over coins, service credits, credit events, start / add-player requests, game
ends, expirations and free-play toggles for several pricing configurations on the real credits mode
(fake game without ball devices); reference balance computed with exact Fractions from the pricing
table written out of the configuration.
"""
import os
import sys
from fractions import Fraction

sys.path.insert(0, os.path.dirname(os.path.dirname(os.path.abspath(__file__))))

from mc import runner, fakegame  # noqa: E402
from mc.driver import MachineDriver, r6, simple_state  # noqa: E402
from mc.explore import bfs  # noqa: E402

EPS = 1e-6
F = Fraction

CONFIGS = {
    "k0": dict(coins=[F(1, 4), F(1)], tiers=[(F(1, 2), 1)], max=2, frac=1.0, exp=3.0),
    "k1": dict(coins=[F(1, 4), F(1)], tiers=[(F(1, 2), 1), (F(2), 5)], max=5, frac=0, exp=0),
    "k2": dict(coins=[F(1, 2), F(1)], tiers=[(F(1, 2), 1)], max=0, frac=0, exp=0),
    "k3": dict(coins=[F(1, 4), F(1)], tiers=[(F(1, 4), 1), (F(1), 5)], max=5, frac=1.0, exp=0),
    "k4": dict(coins=[F(1, 2), F(1, 2)], tiers=[(F(1, 2), 1), (F(1), 3)], max=3, frac=0, exp=2.0),
    "k5": dict(coins=[F(1, 4), F(1, 2)], tiers=[(F(3, 4), 1), (F(3, 2), 3)], max=4, frac=0, exp=0),
}


class Pricing:
    """The pricing table, from the configuration (independent of credits.py)."""

    def __init__(self, c):
        self.c = c
        price = c["tiers"][0][0]
        mincoin = min(c["coins"])
        # the smallest amount in which balances are counted: the documented "credit unit"
        if mincoin == price:
            unit = mincoin
        elif mincoin < price:
            unit = min(price - mincoin, mincoin)
        else:
            unit = min(mincoin - price, price)
        self.unit = unit
        self.per_game = int(price / unit)
        self.max_units = c["max"] * self.per_game
        self.tier_units = [(int(p / unit), n * self.per_game) for p, n in c["tiers"]]   # (cost, value) in units
        self.window = max(t[0] for t in self.tier_units)

    def value(self, cum):
        """Credit units bought by `cum` units of money inserted in one pricing window sequence (greedy, best tier first)."""
        full, rest = divmod(cum, self.window)
        return full * self._v(self.window) + self._v(rest)

    def _v(self, m):
        total = 0
        for cost, val in sorted(self.tier_units, reverse=True):
            while m >= cost:
                m -= cost
                total += val
        return total + m


class CreditsDriver(MachineDriver):
    machine_name = "c20"
    key = "k0"

    def setup(self):
        fakegame.install(self.m)
        self.cfg = CONFIGS[self.key]
        self.p = Pricing(self.cfg)
        self.units = 0              # reference balance in credit units
        self.cum = 0                # money (units) inserted in the current tier window sequence
        self.free = False
        self.money = F(0)           # accepted money
        self.coins = 0
        self.frac_at = None
        self.exp_at = None
        self.players = 0
        self.capped = False
        self.timer_ambiguous = False    # expiry timers were armed/cancelled while free play was on: not judged
        self.cum_ambiguous = False      # an expiry passed in such a situation: the pricing window may have been reset
        self.game_stopped_at = None
        self.m.events.add_handler("mode_game_stopped", self._game_stopped)

    def _game_stopped(self, **kwargs):
        self.game_stopped_at = self.loop.time()

    def ops(self):
        out = [["coin", 0], ["coin", 1], ["service"], ["award"], ["start"], ["toggle"], ["slam"]]
        if self.m.game:
            out.append(["end_game"])
        return out

    def _timeouts(self, now):
        if self.free:
            self.timer_ambiguous = True
            return
        self.timer_ambiguous = False
        if self.cfg["frac"]:
            self.frac_at = now + self.cfg["frac"]
        if self.cfg["exp"]:
            self.exp_at = now + self.cfg["exp"]

    def _add(self, units, tiering):
        prev = self.units
        if tiering:
            if self.cum_ambiguous:
                # an expiry deadline passed where the statement does not fix what it does (game running / free play): the
                # pricing window may or may not have been reset; follow what the implementation did, judge from then on
                self.cum_ambiguous = False
                got = self.m.variables.get_machine_var("credit_units") or 0
                if got - prev == self.p.value(units) - self.p.value(0) and got - prev != self.p.value(self.cum + units) - self.p.value(self.cum):
                    self.cum = 0
            gained = self.p.value(self.cum + units) - self.p.value(self.cum)
            self.cum += units
        else:
            gained = units
        total = prev + gained
        if self.p.max_units and total > self.p.max_units:
            total = max(prev, self.p.max_units) if prev > self.p.max_units else self.p.max_units
            self.capped = True
            self.stat("cap_hits")
        self.units = total

    def do_op(self, op):
        now = self.loop.time()
        sc = self.m.switch_controller
        self.started_before = self.m.game.num_players if self.m.game else 0
        self.units_before = self.m.variables.get_machine_var("credit_units") or 0
        self.request = None
        if op[0] == "coin":
            sw = "s_coin%d" % (op[1] + 1)
            sc.process_switch(sw, 1, logical=True)
            self.loop.drain()
            sc.process_switch(sw, 0, logical=True)
            if not self.free:
                v = self.cfg["coins"][op[1]]
                self._add(int(v / self.p.unit), True)
                self.money += v
                self.coins += 1
                self._timeouts(now)
                self.stat("coins")
        elif op[0] == "service":
            sc.process_switch("s_service", 1, logical=True)
            self.loop.drain()
            sc.process_switch("s_service", 0, logical=True)
            if not self.free:
                self._add(self.p.per_game, False)
        elif op[0] == "award":
            self.m.events.post("award_credit")
            if not self.free:
                self._add(self.p.per_game, False)
                self._timeouts(now)
        elif op[0] == "start":
            can_add = (self.m.game is None) or (self.m.game.num_players < self.m.game.max_players and
                                                self.m.game.player and self.m.game.player.ball == 1)
            self.request = ("start", self.free or self.units >= self.p.per_game, can_add)
            fakegame.press_start(self.sys)
            self.loop.advance(0.05)
        elif op[0] == "toggle":
            self.m.events.post("toggle_credit_play")
            self.free = not self.free
            if self.frac_at is not None or self.exp_at is not None or self.m.game:
                self.timer_ambiguous = True
            self.stat("toggles")
        elif op[0] == "slam":
            # a slam tilt clears all credits and the pricing window, in credit play and in free play alike
            self.m.events.post("slam_tilt")
            self.units = 0
            self.cum = 0
            self.cum_ambiguous = False
            self.stat("slam_tilts")
        elif op[0] == "end_game":
            self.game_stopped_at = None
            fakegame.end_game(self.sys)
            self._timeouts(self.game_stopped_at if self.game_stopped_at is not None else self.loop.time())

    def after_time(self):
        pass

    def oracle(self, choice):
        now = self.loop.time()
        got = self.m.variables.get_machine_var("credit_units") or 0
        sig_op = choice if isinstance(choice, str) else choice[0]
        last = getattr(self, "last_got", None)
        self.last_got = got
        if choice == "T" and last is not None and got > last:
            # judged in every mode (credit play, free play, game running): time alone never creates credits
            self.violate("credits-appear-with-time", "the balance rose from %d to %d credit units while only time passed "
                         "(free play: %s, game: %s)" % (last, got, self.free, bool(self.m.game)))
        if choice == "T":
            # expirations.  The statement fixes them only for credit play outside a game; what a deadline does that
            # passes while free play is on or a game is running is not judged (either outcome is accepted).
            ambiguous = self.free or bool(self.m.game) or self.timer_ambiguous
            cands = [self.units]
            if self.timer_ambiguous and (self.cfg["frac"] or self.cfg["exp"]):
                cands += [self.units - self.units % self.p.per_game, 0]
            if self.exp_at is not None and self.exp_at <= now + EPS:
                if ambiguous:
                    self.cum_ambiguous = True
                self.exp_at = None
                self.frac_at = None if self.frac_at is not None and self.frac_at <= now + EPS else self.frac_at
                cands.append(0)
                if not ambiguous:
                    cands = [0]
                    self.stat("expirations")
            if self.frac_at is not None and self.frac_at <= now + EPS:
                self.frac_at = None
                cands = cands + [c - c % self.p.per_game for c in cands] if ambiguous else \
                    [c - c % self.p.per_game for c in cands]
                if not ambiguous:
                    self.stat("fractional_expirations")
            if got in cands:
                if got == 0 and self.units != 0 and 0 in cands:
                    self.cum = 0
                self.units = got
            else:
                self.units = cands[0]
            if self.units == 0 and not ambiguous:
                self.cum = 0 if 0 in cands and len(cands) == 1 else self.cum
        if self.request:
            _, affordable, can_add = self.request
            nplayers = self.m.game.num_players if self.m.game else 0
            added = nplayers - self.started_before
            if can_add:
                if affordable and added != 1:
                    self.violate("start-refused", "start/add-player request with %s units (price %d) was not accepted" %
                                 (self.units_before, self.p.per_game))
                if not affordable and added:
                    self.violate("start-without-credits", "a player was added with only %s units (price %d)" %
                                 (self.units_before, self.p.per_game))
            if added:
                self.stat("players_started")
                if not self.free:
                    self.units -= self.p.per_game * added
                if self.started_before == 0 and self.free:
                    self.timer_ambiguous = True
                if self.started_before == 0 and not self.free:
                    self.cum = 0            # a new game starts a new pricing window
                    self.exp_at = None
                    self.frac_at = None
            elif not affordable:
                self.stat("refused_starts")
            self.request = None
        # bounds
        if got < 0:
            self.violate("negative-balance", "credit_units = %s" % got)
        if self.p.max_units and got > self.p.max_units:
            self.violate("over-max", "credit_units = %s (%s credits) exceeds max_credits %d (%d units) after %r" %
                         (got, self.m.variables.get_machine_var("credits_string"), self.cfg["max"], self.p.max_units, choice))
        elif got != self.units:
            self.violate("balance:%s" % sig_op, "credit_units = %s but the pricing table gives %s (money in window %s units, "
                         "config %s) after %r" % (got, self.units, self.cum, self.key, choice))
            self.units = got        # resynchronise: report each divergence once
        # audits
        earn = self.m.modes["credits"].earnings
        e_money = earn.get("2 Total Earnings money", 0)
        e_coins = earn.get("1 Total Coins money", 0)
        if F(e_money).limit_denominator(1000) != self.money or e_coins != self.coins:
            self.violate("audits", "earnings audits say %s in %s coins; accepted %s in %s coins" %
                         (e_money, e_coins, self.money, self.coins))
        exp_str = self._credit_string()
        if not self.free and self.m.variables.get_machine_var("credits_value") != exp_str:
            self.violate("credits-string", "credits_value %r but balance is %s units (%s)" %
                         (self.m.variables.get_machine_var("credits_value"), got, exp_str))

    def _credit_string(self):
        got = self.m.variables.get_machine_var("credit_units") or 0
        whole, num = divmod(got, self.p.per_game)
        if num:
            return "%d %d/%d" % (whole, num, self.p.per_game) if whole else "%d/%d" % (num, self.p.per_game)
        return str(whole)

    def fingerprint(self):
        now = self.loop.time()
        g = self.m.game
        return (self.units, self.m.variables.get_machine_var("credit_units"), self.m.variables.get_machine_var("credits_string"),
                # the numbers kept for the display are implementation state too (they go stale in free play)
                tuple(self.m.variables.get_machine_var(v) for v in ("credits_whole_num", "credits_numerator", "credits_denominator",
                                                                    "credits_value")),
                self.cum % self.p.window, self.free, g.num_players if g else None,
                None if self.frac_at is None else r6(self.frac_at - now),
                None if self.exp_at is None else r6(self.exp_at - now), self.rel_timers(), self.modes_fp(), self.task_fp(),
                self.timer_ambiguous, self.cum_ambiguous, (g.player.ball if g.player else None, g.ending) if g else None,
                self.m.playfield.balls,
                simple_state(self.m.modes["credits"], exclude=("earnings", "pricing_table", "credits_config", "data_manager")))

    def observe(self):
        return {"config": self.key, "units": self.m.variables.get_machine_var("credit_units"),
                "credits": self.m.variables.get_machine_var("credits_value"),
                "players": self.m.game.num_players if self.m.game else 0}


def make(key):
    class D(CreditsDriver):
        pass
    D.key = key
    D.config_file = key + ".yaml"
    D.time_horizon = 5.0
    D.__name__ = "Credits_" + key
    return D


def body(ctx):
    quick = ctx.tier == "quick"
    keys = sorted(CONFIGS)
    res = bfs([make(k) for k in keys], 5 if quick else 7, observe=True)
    for s in res.samples[:3]:
        ctx.sample(s)
    for sig, (what, hist) in res.violations.items():
        ctx.violation(sig, what, {"config": keys[hist[0][1]], "history": hist[1:]})
    for k, v in res.stats.items():
        ctx.guard(k, v)
    ctx.add(states=res.states, transitions=res.transitions, traces_validated_against_impl=res.transitions,
            configurations=len(keys), levels=res.levels, exhaustive=True)
    ctx.assume("6 pricing configurations (coin values, 1-2 tiers, max_credits 0/2/3/4/5, fractional/total expiry); "
               "games are ended by end_game (no second ball is played, so the pricing window only restarts at game start "
               "and at expiry); BFS depth 5 (quick) / 7 (thorough)")
    return ("coins", "cap_hits", "players_started", "refused_starts", "toggles", "fractional_expirations", "expirations")


def replay(ctx, data):
    rp = data["replay"]
    d = make(rp["config"])()
    d.boot()
    for c in rp["history"]:
        d.step(c)
        print("  step %r -> %s" % (c, d.observe()))
    for sig, what in d.violations:
        print("  %s: %s" % (sig, what))
    return not d.violations


if __name__ == "__main__":
    runner.main("C20", "model_checking", body, replay)
