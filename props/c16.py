"""C16 — Templates evaluate like Python and never act on stale values.

(i)  exhaustive enumeration of all expressions of the supported grammar up to a node bound over a
     leaf alphabet (literals, parameters, missing names, machine / settings / player / device values),
     evaluated by the real placeholder manager and compared with Python's own evaluation;
(ii) explicit-state BFS over histories of variable changes for a set of subscribed templates,
     conditional event handlers and a condition-driven event_player entry: after every change the
     subscription must have fired and the re-evaluation must equal Python's value.
"""
import itertools
import math
import os
import sys
import types

sys.path.insert(0, os.path.dirname(os.path.dirname(os.path.abspath(__file__))))

from mc import runner, fakegame  # noqa: E402
from mc.boot import System  # noqa: E402
from mc.driver import MachineDriver  # noqa: E402
from mc.explore import bfs, pmap, NPROC  # noqa: E402

DEFAULT = "<<default>>"

# leaves: (source text, kind)
LIT = ["0", "1", "2", "0.5", "True", "False", "None", '"a"', '""']
PARAM = ["x", "y"]                 # x bound to 2, y missing
GLOBAL = ["machine.a", "settings.s", "current_player.v", "players[0].v", "device.counters.c.value",
          "players[1].v", "machine.zz"]
BINOPS = ["+", "-", "*", "/", "//", "%", "**", "^"]
CMPOPS = ["==", "!=", "<", "<=", ">", ">="]
BOOLOPS = ["and", "or"]
UNOPS = ["-", "not "]

FULL = LIT + PARAM + GLOBAL + ["(1, 2)[0]"]
SMALL = ["0", "1", "2", "0.5", "True", "None", '"a"', "x", "y", "machine.a"]


def exprs(size, leaves):
    """All expression trees with exactly `size` AST nodes (leaf = 1 node). Tree = nested tuples."""
    if size == 1:
        for l in leaves:
            yield ("leaf", l)
        return
    for op in UNOPS:
        for e in exprs(size - 1, leaves):
            yield ("un", op, e)
    for ls in range(1, size - 1):
        rs = size - 1 - ls
        if rs < 1:
            continue
        for a in exprs(ls, leaves):
            for b in exprs(rs, leaves):
                for op in BINOPS:
                    yield ("bin", op, a, b)
                for op in CMPOPS:
                    yield ("cmp", op, a, b)
                for op in BOOLOPS:
                    yield ("bool", op, a, b)
    if size >= 4:
        for s1 in range(1, size - 2):
            for s2 in range(1, size - 1 - s1):
                s3 = size - 1 - s1 - s2
                if s3 < 1:
                    continue
                for a in exprs(s1, leaves):
                    for b in exprs(s2, leaves):
                        for c in exprs(s3, leaves):
                            yield ("if", a, b, c)
    if size == 3:
        for a in leaves[:4]:
            for b in leaves[:4]:
                yield ("tuple0", ("leaf", a), ("leaf", b))


def text(t):
    k = t[0]
    if k == "leaf":
        return t[1]
    if k == "un":
        return "(%s%s)" % (t[1], text(t[2]))
    if k in ("bin", "cmp", "bool"):
        return "(%s %s %s)" % (text(t[2]), t[1], text(t[3]))
    if k == "if":
        return "(%s if %s else %s)" % (text(t[2]), text(t[1]), text(t[3]))
    if k == "tuple0":
        return "(%s, %s)[1]" % (text(t[1]), text(t[2]))
    raise AssertionError(k)


class Missing(Exception):
    pass


class Skip(Exception):
    pass


ENV = None


def make_env():
    ns = types.SimpleNamespace
    player0 = ns(v=7)
    return {"x": 2, "machine": ns(a=3, zz=None), "settings": ns(s=2), "current_player": player0,
            "players": [player0], "device": ns(counters=ns(c=ns(value=0)))}


def ref(t, env):
    """Reference: Python's own semantics (via eval of one operator at a time), all operands of and/or evaluated;
    missing names / players / type-incompatible operands -> Missing (the template's default)."""
    k = t[0]
    if k == "leaf":
        try:
            return eval(t[1], {"__builtins__": {}}, env)      # noqa: S307
        except (NameError, IndexError, AttributeError):
            raise Missing()
    if k == "un":
        v = ref(t[2], env)
        try:
            return eval("%s_v" % t[1], {"__builtins__": {}}, {"_v": v})    # noqa: S307
        except TypeError:
            raise Missing()
    if k in ("bin", "cmp", "bool"):
        l = ref(t[2], env)
        r = ref(t[3], env)
        try:
            return eval("_l %s _r" % t[1], {"__builtins__": {}}, {"_l": l, "_r": r})   # noqa: S307
        except TypeError:
            raise Missing()
        except (ZeroDivisionError, OverflowError, ValueError):
            raise Skip()
    if k == "if":
        c = ref(t[1], env)
        return ref(t[2], env) if c else ref(t[3], env)
    if k == "tuple0":
        return (ref(t[1], env), ref(t[2], env))[1]
    raise AssertionError(k)


def same(a, b):
    if type(a) is not type(b):
        return False
    if isinstance(a, float) and math.isnan(a) and math.isnan(b):
        return True
    if isinstance(a, complex):
        return a == b
    return a == b


def _eval_worker(arg):
    tier, wid, n = arg
    sysm = System("c16")
    m = sysm.machine
    fakegame.install(m)
    fakegame.press_start(sysm)
    sysm.loop.advance(1.0)
    assert m.game and m.game.player
    pm = m.placeholder_manager
    env = make_env()
    viols = {}
    count = judged = defaults = skipped = 0
    outcomes = set()
    sample = []
    plan = [(1, FULL), (2, FULL), (3, FULL), (4, SMALL), (5, SMALL)] if tier == "quick" else \
           [(1, FULL), (2, FULL), (3, FULL), (4, FULL[:14]), (5, SMALL), (6, SMALL[:6])]
    idx = 0
    for size, leaves in plan:
        for t in exprs(size, leaves):
            idx += 1
            if idx % n != wid:
                continue
            count += 1
            src = text(t)
            try:
                exp = ref(t, env)
                kind = "value"
            except Missing:
                exp, kind = DEFAULT, "default"
            except Skip:
                skipped += 1
                continue
            if exp is None:
                exp, kind = DEFAULT, "default"      # None means "no value": MPF returns the default
            if isinstance(exp, complex):
                skipped += 1
                continue
            try:
                tmpl = pm.build_raw_template(src, DEFAULT)
                got = tmpl.evaluate({"x": 2})
            except BaseException as e:      # noqa
                got = ("RAISED", type(e).__name__)
            judged += 1
            if kind == "default":
                defaults += 1
            outcomes.add(repr(got))
            if not (same(got, exp)):
                if isinstance(got, tuple) and got and got[0] == "RAISED":
                    sig = "eval-raised:%s:%s" % (kind, t[0] + (":" + t[1].strip() if t[0] in ("un",) else ""))
                else:
                    sig = "eval-value:%s:%s" % (t[0], t[1] if t[0] in ("un", "bin", "cmp", "bool") else "")
                if sig not in viols or len(src) < len(viols[sig][1]["expr"]):
                    viols[sig] = ("template %s evaluated to %r, Python gives %r" % (src, got, exp),
                                  {"expr": src, "expected": repr(exp), "got": repr(got)})
            if len(sample) < 2 and idx % 30011 == 0:
                sample.append({"expr": src, "python": repr(exp), "template": repr(got)})
    sysm.close()
    return count, judged, defaults, skipped, len(outcomes), viols, sample


# ================================================================================================
# (ii) freshness
# ================================================================================================
TEMPLATES = ["machine.a", "machine.a + machine.b", "machine.a if machine.b > 5 else 0", "settings.s",
             "settings.s * 2 + machine.a", "current_player.v", "current_player.v + machine.a", "players[0].v",
             "device.counters.c.value", "device.counters.c.value + machine.a", "machine.a == 1 and machine.b == 6",
             "machine.a == 1 or current_player.v > 7", "(machine.a, machine.b)[0]", "machine['a']",
             "machine.b if machine.a == 1 else current_player.v", "not machine.a == 2", "players[1].v",
             "machine.a + x", "-machine.a", "machine.a ** 2 % 3",
             # operands that are type-incompatible until a variable gets a value
             "machine.a > machine.u", "machine.u < machine.a", "(machine.u + 1) if machine.a == 3 else 0",
             "machine.b if machine.a == 3 else (machine.u + 1)", "machine.a == 1 or machine.u > 2",
             # index access reads the same variables as attribute access
             "device.counters.c['value']", "device['counters']['c']['value'] + machine['a']", "current_player['v']",
             "players[0]['v']",
             # a setting whose machine variable has another name than the setting
             "settings.t", "settings.t + machine.a"]


class FreshDriver(MachineDriver):
    machine_name = "c16"
    CHANGES = [("a", 1), ("a", 2), ("b", 6), ("s", 1), ("s", 3), ("t", 3), ("v", 8), ("v", 7), ("c", 1), ("c", 2), ("u", 1), ("u", 5),
               ("rm", "b"), ("add_player",), ("end_turn",)]

    def setup(self):
        fakegame.install(self.m)
        fakegame.press_start(self.sys)
        self.loop.advance(1.0)
        self.m.modes["mg"].start()
        self.loop.drain()
        self.pm = self.m.placeholder_manager
        self.tmpl = [self.pm.build_raw_template(t, DEFAULT) for t in TEMPLATES]
        self.fut = []
        self.last = []
        for t in self.tmpl:
            v, f = t.evaluate_and_subscribe({"x": 2})
            self.last.append(v)
            self.fut.append(f)
        self.fired = {"cond_a1": 0, "cond_v": 0, "fired_a1": 0, "fired_v": 0}
        self.m.events.add_handler("trig{machine.a==1}", self._on, _n="cond_a1")
        self.m.events.add_handler("trig{current_player.v>7}", self._on, _n="cond_v")
        self.m.events.add_handler("fired_a1", self._on, _n="fired_a1")
        self.m.events.add_handler("fired_v", self._on, _n="fired_v")
        self.nchanges = 0

    def _on(self, _n, **kwargs):
        self.fired[_n] += 1

    def env(self):
        ns = types.SimpleNamespace
        g = self.m.game
        players = [ns(v=p["v"]) for p in g.player_list] if g else []
        cur = players[g.player.index] if g and g.player else None
        env = {"x": 2, "machine": ns(a=self.m.variables.get_machine_var("a"), b=self.m.variables.get_machine_var("b"),
                                     u=self.m.variables.get_machine_var("u")),
               "settings": ns(s=self.m.settings.get_setting_value("s"), t=self.m.settings.get_setting_value("t")), "players": players,
               "device": ns(counters=ns(c=ns(value=self.m.counters["c"].value)))}
        if cur is not None:
            env["current_player"] = cur
        return env

    def ops(self):
        out = [list(c) for c in self.CHANGES]
        out.append(["trig"])
        return out

    def do_op(self, op):
        m = self.m
        self.trigged = False
        if op[0] in ("a", "b", "u"):
            m.variables.set_machine_var(op[0], op[1])
        elif op[0] == "rm":
            m.variables.remove_machine_var(op[1])
        elif op[0] in ("s", "t"):
            m.settings.set_setting_value(op[0], op[1])
        elif op[0] == "v":
            if m.game and m.game.player:
                m.game.player["v"] = op[1]
        elif op[0] == "c":
            m.events.post("c_jump%d" % op[1])
        elif op[0] == "add_player":
            if m.game and m.game.num_players < 2:
                fakegame.press_start(self.sys)
        elif op[0] == "end_turn":
            if m.game and m.game.balls_in_play:
                fakegame.drain_one(self.sys)
                self.loop.advance(1.0)
        elif op[0] == "trig":
            self.before = dict(self.fired)
            m.events.post("trig")
            self.trigged = True

    def py(self, src, env):
        """Python's value of the expression with all operands of and/or evaluated (the statement's semantics)."""
        import ast
        import types as _types

        class View:
            """Attribute and string-index access read the same variable (machine.a == machine["a"], for devices too)."""

            def __init__(s, o):
                s.__dict__["_o"] = o

            def __getattr__(s, k):
                return wrap(getattr(s.__dict__["_o"], k))

            def __getitem__(s, k):
                o = s.__dict__["_o"]
                return wrap(getattr(o, k)) if isinstance(k, str) else wrap(o[k])

        def wrap(o):
            return View(o) if isinstance(o, (_types.SimpleNamespace, list)) else o
        genv = {k: wrap(v) for k, v in env.items()}

        def ev(node):
            if isinstance(node, ast.BoolOp):
                vals = [ev(v) for v in node.values]        # every operand is evaluated
                res = vals[0]
                for v in vals[1:]:
                    res = (res and v) if isinstance(node.op, ast.And) else (res or v)
                return res
            if isinstance(node, ast.IfExp):
                return ev(node.body) if ev(node.test) else ev(node.orelse)
            if isinstance(node, ast.UnaryOp):
                v = ev(node.operand)
                tree = ast.Expression(ast.UnaryOp(node.op, ast.Name("_v", ast.Load())))
                return eval(compile(ast.fix_missing_locations(tree), "<t>", "eval"), {"__builtins__": {}}, {"_v": v})   # noqa: S307
            if isinstance(node, ast.BinOp):
                l, r = ev(node.left), ev(node.right)
                tree = ast.Expression(ast.BinOp(ast.Name("_l", ast.Load()), node.op, ast.Name("_r", ast.Load())))
                return eval(compile(ast.fix_missing_locations(tree), "<t>", "eval"), {"__builtins__": {}}, {"_l": l, "_r": r})   # noqa: S307
            if isinstance(node, ast.Compare):
                l, r = ev(node.left), ev(node.comparators[0])
                tree = ast.Expression(ast.Compare(ast.Name("_l", ast.Load()), node.ops, [ast.Name("_r", ast.Load())]))
                return eval(compile(ast.fix_missing_locations(tree), "<t>", "eval"), {"__builtins__": {}}, {"_l": l, "_r": r})   # noqa: S307
            if isinstance(node, ast.Tuple):
                return tuple(ev(x) for x in node.elts)
            # leaves: names, attribute / index access, constants -> Python itself
            return eval(compile(ast.fix_missing_locations(ast.Expression(node)), "<t>", "eval"), {"__builtins__": {}}, genv)   # noqa: S307
        try:
            v = ev(ast.parse(src, mode="eval").body)
        except (NameError, IndexError, AttributeError, TypeError, KeyError):
            return DEFAULT
        return DEFAULT if v is None else v

    def oracle(self, choice):
        if not self.m.game:
            return
        env = self.env()
        if self.trigged:
            exp_a1 = 1 if env["machine"].a == 1 else 0
            exp_v = 1 if ("current_player" in env and env["current_player"].v > 7) else 0
            d = {k: self.fired[k] - self.before[k] for k in self.fired}
            self.stat("conditional_posts")
            if exp_a1 or exp_v:
                self.stat("conditional_true")
            for name, exp in (("cond_a1", exp_a1), ("fired_a1", exp_a1), ("cond_v", exp_v), ("fired_v", exp_v)):
                if d[name] != exp:
                    self.violate("conditional:%s" % name, "condition handler %s fired %d time(s), condition is %s on current "
                                 "values (a=%r v=%r)" % (name, d[name], bool(exp), env["machine"].a,
                                                         getattr(env.get("current_player"), "v", None)))
            return
        for i, src in enumerate(TEMPLATES):
            cur = self.py(src, env)
            if not same(cur, self.last[i]):
                # a variable this template read has changed its value -> it must have been notified
                self.stat("value_changes")
                if not self.fut[i].done():
                    self.violate("stale:%s" % src, "template %r was evaluated to %r, now Python gives %r after %r, but its "
                                 "subscription future is not done" % (src, self.last[i], cur, choice))
                    continue
            if self.fut[i].done():
                self.stat("notifications")
                v, f = self.tmpl[i].evaluate_and_subscribe({"x": 2})
                if not same(v, cur):
                    self.violate("reeval:%s" % src, "re-evaluation of %r gives %r, Python %r" % (src, v, cur))
                self.last[i] = v
                self.fut[i] = f

    def fingerprint(self):
        env = self.env() if self.m.game else {}
        g = self.m.game
        return (repr(sorted((k, repr(v)) for k, v in env.items() if k != "players")),
                tuple(p["v"] for p in g.player_list) if g else None, g.player.index if g and g.player else None,
                g.player.ball if g and g.player else None, g.balls_in_play if g else None, self.modes_fp(),
                g.num_players if g else None, tuple(self.fired.values()), tuple(repr(x) for x in self.last))

    def observe(self):
        return {"values": {s: repr(v) for s, v in zip(TEMPLATES, self.last)}}


def body(ctx):
    n = NPROC
    total = judged = dflt = skipped = outc = 0
    for count, j, d, sk, oc, viols, sample in pmap(_eval_worker, [(ctx.tier, w, n) for w in range(n)], chunksize=1, workers=n):
        total += count
        judged += j
        dflt += d
        skipped += sk
        outc += oc
        for s in sample:
            ctx.sample(s)
        for sig, (msg, rp) in viols.items():
            ctx.violation(sig, msg, rp)
    res = bfs(FreshDriver, 4 if ctx.tier == "quick" else 5, observe=True)
    for s in res.samples[:1]:
        ctx.sample({"search": "freshness", "history": s["history"]})
    for sig, (what, hist) in res.violations.items():
        ctx.violation("fresh:" + sig, what, {"search": "freshness", "history": hist})
    for k, v in res.stats.items():
        ctx.guard(k, v)
    ctx.guard("defaults", dflt)
    ctx.add(states=res.states, transitions=res.transitions, traces_validated_against_impl=res.transitions + judged,
            evaluations=total, distinct_nontrivial=outc, expressions=total, expressions_judged=judged,
            expected_default=dflt, skipped_python_raises_other=skipped, templates_subscribed=len(TEMPLATES),
            freshness_levels=res.levels, exhaustive=True)
    ctx.assume("expressions: all trees with <=3 nodes over 19 leaves, 4-5 (thorough 6) nodes over reduced leaf sets; "
               "chained comparisons, slices and index access on plain values are outside the supported grammar",
               "a None result is 'no value' and maps to the template default; Python exceptions other than NameError/"
               "TypeError (ZeroDivisionError, OverflowError) are not judged",
               "freshness BFS: depth 4 (quick) / 5 (thorough) over 11 change operations + a conditional event post")
    return ("defaults", "value_changes", "notifications", "conditional_posts", "conditional_true")


def replay(ctx, data):
    rp = data["replay"]
    if "expr" in rp:
        sysm = System("c16")
        fakegame.install(sysm.machine)
        fakegame.press_start(sysm)
        sysm.loop.advance(1.0)
        try:
            got = sysm.machine.placeholder_manager.build_raw_template(rp["expr"], DEFAULT).evaluate({"x": 2})
        except BaseException as e:      # noqa
            got = ("RAISED", type(e).__name__)
        print("  %s -> %r (expected %s)" % (rp["expr"], got, rp["expected"]))
        return repr(got) == rp["expected"]
    d = FreshDriver()
    d.boot()
    for c in rp["history"]:
        d.step(c)
    for sig, what in d.violations:
        print("  %s: %s" % (sig, what))
    return not d.violations


if __name__ == "__main__":
    runner.main("C16", "model_checking", body, replay)
