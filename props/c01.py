"""C01 — Event dispatch is complete, priority-ordered and serial.

Exhaustive enumeration of *handler programs* up to a size bound, each executed on the real
EventManager of a booted machine (fresh EventManager per program), posted from several contexts;
the observed trace is judged by monitors M1–M6 written from the property statement.
"""
import itertools
import os
import sys

sys.path.insert(0, os.path.dirname(os.path.dirname(os.path.abspath(__file__))))

from mc import runner  # noqa: E402
from mc.boot import System  # noqa: E402
from mc.explore import pmap, NPROC  # noqa: E402

from mpf.core.events import EventManager  # noqa: E402

MAX_DEPTH = 3          # posting depth bound (harness side: handler bodies stop posting below it)
MAX_DISPATCH = 400

# ------------------------------------------------------------------------------------------------
# program representation
#   handler  = (event, prio, hkw, cond, body, registered)     hkw: tuple of (k,v) or ()
#   body     = tuple of actions; action = (op, arg)
#   root     = tuple of (kind, event, kwargs-tuple, with_cb)
#   program  = (handlers, pre, roots, context)
# ------------------------------------------------------------------------------------------------


class Run:
    """Executes one program against the real EventManager and records the trace."""

    def __init__(self, sysm):
        self.sys = sysm
        self.m = sysm.machine
        self.sw_event = None
        for st in (0, 1):
            self.m.switch_controller.add_switch_handler("s2", self._switch_cb, state=st)

    def _switch_cb(self, **kwargs):
        if self.sw_event is not None:
            ev, self.sw_event = self.sw_event, None
            self._post("post", ev, (), False)

    def execute(self, prog):
        handlers, pre, roots, context = prog
        m = self.m
        em = EventManager(m)
        m.events = em
        self.em = em
        self.trace = []          # entries: tuples
        self.posts = {}          # pid -> dict(event, kind, kwargs, cb, parent)
        self.pid = 0
        self.stack = []          # (pid, hid) of running handler invocations
        self.keys = {}           # hid -> list of EventHandlerKey
        self.funcs = []
        self.specs = handlers
        self.ndisp = 0
        self.in_cb = None
        for hid, spec in enumerate(handlers):
            self.funcs.append(self._make_handler(hid, spec))
        for hid, spec in enumerate(handlers):
            if spec[5]:
                self._register(hid)
        for op, hid in pre:
            self._regop(op, hid)
        self.trace.append(("start",))
        self.m.delay.clear()
        getattr(self, "_ctx_" + context)(roots)
        self.sys.loop.run_to_rest(5.0)
        return self.trace, self.posts

    # -- registry operations (public API only) ------------------------------------------------
    def _register(self, hid):
        ev, prio, hkw, cond, _body, _r = self.specs[hid]
        name = ev + ("{%s}" % cond if cond else "")
        if not isinstance(prio, int):
            self.funcs[hid].relative_priority = prio[1]
            prio = prio[0]
        key = self.em.add_handler(name, self.funcs[hid], priority=prio, **dict(hkw))
        self.keys.setdefault(hid, []).append(key)
        self.trace.append(("reg", hid))

    def _regop(self, op, hid):
        if op == "add":
            if len(self.keys.get(hid) or []) < 2:       # harness bound: at most 2 live registrations
                self._register(hid)
        elif op == "rm_key":
            ks = self.keys.get(hid) or []
            if ks:
                self.em.remove_handler_by_key(ks.pop(0))
                self.trace.append(("unreg1", hid))
        elif op == "rm_method":
            self.em.remove_handler(self.funcs[hid])
            self.keys[hid] = []
            self.trace.append(("unreg", hid))

    def _post(self, kind, ev, kw, with_cb):
        self.pid += 1
        pid = self.pid
        parent = self.stack[-1][0] if self.stack else None
        depth = 0 if parent is None else self.posts[parent]["depth"] + 1
        nreg = sum(len(self.keys.get(h) or []) for h, sp in enumerate(self.specs) if sp[0] == ev)
        self.posts[pid] = {"event": ev, "kind": kind, "kwargs": dict(kw), "cb": with_cb, "parent": parent,
                           "depth": depth, "from_cb": self.in_cb, "handlers_at_post": nreg}
        self.trace.append(("post", pid))
        cb = None
        if with_cb:
            def cb(_pid=pid, **kwargs):
                self.trace.append(("cb", _pid, dict(kwargs)))
                return None
        fn = {"post": self.em.post, "bool": self.em.post_boolean, "relay": self.em.post_relay}[kind]
        fn(ev, callback=cb, _pid=pid, **dict(kw))

    def _make_handler(self, hid, spec):
        body = spec[4]

        def handler(**kwargs):
            pid = kwargs.get("_pid")
            self.trace.append(("call", pid, hid, dict(kwargs)))
            self.stack.append((pid, hid))
            self.ndisp += 1
            ret = None
            try:
                depth = self.posts[pid]["depth"] if pid in self.posts else 0
                for op, arg in body:
                    if op in ("post", "post_cb", "bool", "relay"):
                        if depth < MAX_DEPTH and self.ndisp < MAX_DISPATCH:
                            kind = "post" if op in ("post", "post_cb") else op
                            self._post(kind, arg, (), op == "post_cb")
                    elif op == "run_now":
                        # a pending delay whose callback posts `arg` is run from inside this handler
                        if depth < MAX_DEPTH and self.ndisp < MAX_DISPATCH:
                            name = "c01_rn"
                            self.m.delay.add(ms=1000, callback=lambda _e=arg, **kw: self._post("post", _e, (), False),
                                             name=name)
                            self.m.delay.run_now(name)
                    elif op == "sw":
                        # a switch change reported from inside this handler; its (untimed) switch handler posts `arg`
                        if depth < MAX_DEPTH and self.ndisp < MAX_DISPATCH:
                            self.sw_event = arg
                            sw = self.m.switches["s2"]
                            self.m.switch_controller.process_switch_obj(sw, 0 if sw.state else 1, True)
                    elif op in ("add", "rm_key", "rm_method"):
                        self._regop(op, arg)
                    elif op == "ret_false":
                        ret = False
                    elif op == "ret_dict":
                        ret = {"r": 1}
            finally:
                self.stack.pop()
                self.trace.append(("ret", pid, hid))
            return ret
        handler.__name__ = "h%d" % hid
        return handler

    # -- posting contexts ---------------------------------------------------------------------
    def _post_roots(self, roots):
        for kind, ev, kw, with_cb in roots:
            self._post(kind, ev, kw, with_cb)

    def _ctx_plain(self, roots):
        self._post_roots(roots)
        self.em.process_event_queue()

    def _ctx_loop(self, roots):
        # nobody calls process_event_queue: the call_soon scheduled by post() has to do it
        self._post_roots(roots)
        self.sys.loop.drain()

    def _ctx_delay(self, roots):
        self.m.delay.add(ms=100, callback=lambda **kw: self._post_roots(roots), name="c01")
        self.sys.loop.fire_next()

    def _ctx_switch(self, roots):
        sw = self.m.switches["s1"]
        h = self.m.switch_controller.add_switch_handler_obj(
            sw, lambda **kw: self._post_roots(roots), state=1, ms=100)
        self.m.switch_controller.process_switch_obj(sw, 1, True)
        self.sys.loop.drain()
        self.sys.loop.fire_next()
        self.m.switch_controller.remove_switch_handler_by_key(h)
        self.m.switch_controller.process_switch_obj(sw, 0, True)
        self.sys.loop.drain()

    def _ctx_callback(self, roots):
        # root posts are made from the completion callback of an earlier event
        def first_cb(**kwargs):
            self.in_cb = 0
            self._post_roots(roots)
            self.in_cb = None
        self.em.post("zz_unrelated", callback=first_cb)
        self.sys.loop.drain()


# ------------------------------------------------------------------------------------------------
# monitors (written from the statement)
# ------------------------------------------------------------------------------------------------
def cond_holds(cond, kw):
    if not cond:
        return True
    var, val = cond.split("==")
    return kw.get(var) == int(val)


def judge(prog, trace, posts):
    """Return list of (monitor, message)."""
    handlers = prog[0]
    out = []
    # positions
    reg = {}            # hid -> registration count
    calls = {}          # pid -> list of (pos, hid, kwargs)
    rets = {}
    cbs = {}
    reg_at = []         # registry multiset snapshot before each trace position
    cur = {}
    unreg_events = []   # (pos, hid, by_pid, by_hid)
    reg_events = []
    depth = 0
    open_call = None
    for pos, e in enumerate(trace):
        reg_at.append(dict(cur))
        k = e[0]
        if k == "reg":
            cur[e[1]] = cur.get(e[1], 0) + 1
            reg_events.append((pos, e[1]))
        elif k == "unreg1":
            cur[e[1]] = cur.get(e[1], 0) - 1
            unreg_events.append((pos, e[1], open_call))
        elif k == "unreg":
            cur[e[1]] = 0
            unreg_events.append((pos, e[1], open_call))
        elif k == "call":
            if depth > 0:
                out.append(("M4", "handler h%d invoked while handler %r is still running (nesting)" % (e[2], open_call)))
            depth += 1
            open_call = (e[1], e[2])
            calls.setdefault(e[1], []).append((pos, e[2], e[3]))
        elif k == "ret":
            depth -= 1
            open_call = None
            rets.setdefault(e[1], []).append(pos)
        elif k == "cb":
            cbs.setdefault(e[1], []).append(pos)
    reg_at.append(dict(cur))

    # posting forest and expected DFS order
    children = {}
    roots = []
    for pid in sorted(posts):
        p = posts[pid]["parent"]
        if p is None:
            roots.append(pid)
        else:
            children.setdefault(p, []).append(pid)

    # M4 contiguity: calls of one dispatch are contiguous
    call_seq = [(pos, e[1]) for pos, e in enumerate(trace) if e[0] == "call"]
    seen_done = set()
    last = None
    for pos, pid in call_seq:
        if pid != last:
            if pid in seen_done:
                out.append(("M4", "handlers of dispatch %s interleave with another dispatch" % pid))
            if last is not None:
                seen_done.add(last)
            last = pid

    # M5 dispatch order = DFS pre-order, for dispatches with at least one call.
    # Roots posted from the same context are FIFO; a dispatch's children follow it directly.
    first_call = {pid: c[0][0] for pid, c in calls.items()}
    last_ret = {pid: max(r) for pid, r in rets.items()}

    def subtree(pid):
        yield pid
        for c in children.get(pid, []):
            yield from subtree(c)

    def check_order(sibs, ctxname):
        # siblings in post order; whole subtree of s_i precedes subtree of s_{i+1}
        prev_max = None
        prev = None
        for s in sibs:
            nodes = list(subtree(s))
            fc = [first_call[n] for n in nodes if n in first_call]
            lr = [last_ret[n] for n in nodes if n in last_ret]
            if fc:
                if prev_max is not None and min(fc) < prev_max:
                    out.append(("M5", "event %s(#%d) posted after %s(#%d) by %s was dispatched before the "
                                "earlier event and everything it posted had been dispatched" %
                                (posts[s]["event"], s, posts[prev]["event"], prev, ctxname)))
                if s in first_call and min(fc) != first_call[s]:
                    out.append(("M5", "a child of #%d was dispatched before #%d itself" % (s, s)))
                prev_max = max(lr) if prev_max is None else max(prev_max, max(lr))
                prev = s
        for s in sibs:
            # children are dispatched after the parent's remaining handlers
            if s in last_ret:
                for c in children.get(s, []):
                    fcc = [first_call[n] for n in subtree(c) if n in first_call]
                    if fcc and min(fcc) < last_ret[s]:
                        out.append(("M5", "event posted during dispatch #%d was dispatched before #%d's "
                                    "remaining handlers" % (s, s)))
            check_order(children.get(s, []), "dispatch #%d" % s)

    # group roots by the callback they were posted from (None = the harness context)
    groups = {}
    for r in roots:
        groups.setdefault(posts[r].get("from_cb"), []).append(r)
    for g in groups.values():
        check_order(g, "the posting context")

    # begin position of every dispatch (for the registry snapshot): first call, or – for
    # dispatches without calls – pinned by the DFS order between its neighbours.
    order = []

    def dfs(sibs):
        for s in sibs:
            order.append(s)
            dfs(children.get(s, []))
    # roots posted from completion callbacks are appended in post order after everything else
    dfs(roots)
    begin = {}
    last_known = None
    for pos, e in enumerate(trace):
        if e[0] == "start":
            last_known = pos + 1
    for pid in order:
        if pid in first_call:
            begin[pid] = first_call[pid]
    # fill gaps: a dispatch without calls begins after the last ret of the latest preceding (DFS) dispatch
    # that has calls *and* whose position is before the next one with calls.
    prev_end = last_known
    for pid in order:
        if pid in first_call:
            prev_end = max(prev_end, last_ret.get(pid, first_call[pid]) + 1)
        else:
            # position where the post itself happened is a lower bound
            ppos = next(i for i, e in enumerate(trace) if e[0] == "post" and e[1] == pid)
            begin[pid] = max(prev_end, ppos + 1)

    for pid, p in posts.items():
        ev = p["event"]
        b = begin[pid]
        regset = reg_at[b]
        mycalls = calls.get(pid, [])
        called = {}
        for pos, hid, kw in mycalls:
            called[hid] = called.get(hid, 0) + 1
        end = max(rets.get(pid, [b]))
        # boolean events stop at the first False
        stop_prio = None
        if p["kind"] == "bool":
            for pos, hid, kw in mycalls:
                if any(a[0] == "ret_false" for a in handlers[hid][4]):
                    stop_prio = (pos, eff(handlers[hid][1]))
                    break
        for hid, spec in enumerate(handlers):
            hev, prio, hkw, cond, body, _ = spec
            prio = eff(prio)
            n = called.get(hid, 0)
            if hev != ev:
                if n:
                    out.append(("M1", "h%d (registered for %s) invoked for event %s" % (hid, hev, ev)))
                continue
            count_at_begin = regset.get(hid, 0)
            merged = dict(p["kwargs"])
            merged["_pid"] = pid
            merged.update(dict(hkw))
            holds = cond_holds(cond, merged)
            added_during = [pos for pos, h in reg_events if h == hid and b <= pos <= end]
            removed_during = [(pos, by) for pos, h, by in unreg_events if h == hid and b <= pos <= end]
            if n and not holds:
                out.append(("M1", "h%d invoked although its condition %s is false for %r" % (hid, cond, merged)))
            if count_at_begin <= 0 and not added_during and n:
                out.append(("M1", "h%d invoked for %s(#%d) although it was not registered" % (hid, ev, pid)))
            if n > max(count_at_begin, 0) + len(added_during):
                out.append(("M1", "h%d invoked %d times for one dispatch of %s (registered %d time(s))" %
                            (hid, n, ev, count_at_begin)))
            if count_at_begin > 0 and holds:
                # must be delivered count_at_begin times unless removed before its turn
                excused = 0
                for pos, by in removed_during:
                    if by is None:
                        excused += 99
                        continue
                    by_prio = eff(handlers[by[1]][1])
                    if by_prio >= prio:
                        excused += 99
                if stop_prio is not None and stop_prio[1] >= prio:
                    # stopped by a False result of a handler with >= priority (ties: any order)
                    if not any(h == hid and pos <= stop_prio[0] for pos, h, _ in mycalls):
                        excused += 99
                if n < count_at_begin and n + excused < count_at_begin:
                    if not mycalls and not p["cb"] and p["handlers_at_post"] == 0:
                        out.append(("M1:dropped-at-post", "event %s(#%d) was posted while no handler was registered "
                                    "and dropped, although h%d was registered before its dispatch would begin" %
                                    (ev, pid, hid)))
                    else:
                        out.append(("M1", "h%d registered for %s when dispatch #%d began (and not removed before "
                                    "its turn) was invoked %d time(s) instead of %d" %
                                    (hid, ev, pid, n, count_at_begin)))
        # M2 priority order
        prios = [eff(handlers[hid][1]) for _, hid, _ in mycalls]
        if any(prios[i] < prios[i + 1] for i in range(len(prios) - 1)):
            out.append(("M2", "dispatch of %s ran priorities %r (not descending)" % (ev, prios)))
        # M3 kwargs
        if p["kind"] != "relay":
            for pos, hid, kw in mycalls:
                exp = dict(p["kwargs"])
                exp["_pid"] = pid
                exp.update(dict(handlers[hid][2]))
                got = {k: v for k, v in kw.items() if k not in ("_min_priority",)}
                if got != exp:
                    out.append(("M3", "h%d received %r, expected posted %r overridden by handler kwargs %r" %
                                (hid, got, p["kwargs"], dict(handlers[hid][2]))))
        # M6 callback
        ncb = len(cbs.get(pid, []))
        if p["cb"]:
            if ncb != 1:
                out.append(("M6", "completion callback of %s(#%d) ran %d times" % (ev, pid, ncb)))
            else:
                cpos = cbs[pid][0]
                for n_ in subtree(pid):
                    if n_ in last_ret and last_ret[n_] > cpos:
                        out.append(("M6", "completion callback of %s(#%d) ran before %s(#%d), which it "
                                    "transitively posted, had been dispatched" %
                                    (ev, pid, posts[n_]["event"], n_)))
                    if n_ not in last_ret and n_ != pid:
                        # descendant without calls: fine (nothing to deliver) – checked by M1
                        pass
        elif ncb:
            out.append(("M6", "callback for #%d without one being requested" % pid))
    return out


# ------------------------------------------------------------------------------------------------
# enumeration of programs
# ------------------------------------------------------------------------------------------------
def reachable(handlers, roots):
    evs = {r[1] for r in roots}
    changed = True
    while changed:
        changed = False
        for ev, _p, _k, _c, body, _r in handlers:
            if ev in evs:
                for op, arg in body:
                    if op in ("post", "post_cb", "bool", "relay", "run_now", "sw") and arg not in evs:
                        evs.add(arg)
                        changed = True
    return evs


def family_forest(nh, post_ops, maxact, prios=(1, 2), total_actions=None):
    """Posting forests: handlers that post further events (with and without callbacks)."""
    events = ("a", "b", "c")
    acts = [(op, e) for op in post_ops for e in events]
    bodies = [()]
    for n in range(1, maxact + 1):
        bodies += list(itertools.product(acts, repeat=n))
    types = [(e, p, (), None, b, True) for e in events for p in prios for b in bodies]
    rootsets = [(("post", "a", (), False),), (("post", "a", (), True),),
                (("post", "a", (), False), ("post", "b", (), False)),
                (("post", "a", (), True), ("post", "b", (), True)),
                (("post", "a", (), True), ("post", "a", (), False))]
    for n in range(1, nh + 1):
        for hs in itertools.combinations_with_replacement(types, n):
            if total_actions is not None and sum(len(h[4]) for h in hs) > total_actions:
                continue
            for roots in rootsets:
                evs = reachable(hs, roots)
                if any(h[0] not in evs for h in hs):
                    continue        # dead handler: equivalent to a smaller program
                yield (hs, (), roots, "plain")


def family_registry(nh, prios=(1, 2, 3)):
    """Handlers that add/remove handlers (incl. themselves) during a dispatch; prior history."""
    events = ("a", "b")
    for n in range(2, nh + 1):
        hids = range(n)
        acts = [()] + [((op, j),) for op in ("add", "rm_key", "rm_method") for j in hids] + \
               [(("post", e),) for e in events]
        heads = [(e, p, r) for e in events for p in prios for r in (True, False)]
        for head in itertools.combinations_with_replacement(heads, n):
            if not any(h[0] == "a" and h[2] for h in head):
                continue
            for bodies in itertools.product(acts, repeat=n):
                nreg = sum(1 for b in bodies for a in b if a[0] != "post")
                if nreg == 0 or nreg > 2:
                    continue
                hs = tuple((head[i][0], head[i][1], (), None, bodies[i], head[i][2]) for i in range(n))
                for roots in ((("post", "a", (), False),), (("post", "a", (), False), ("post", "a", (), True))):
                    yield (hs, (), roots, "plain")


def eff(prio):
    """Effective priority: a (nominal, relative) pair is a handler carrying a relative_priority attribute (as the
    @event_handler(N) decorator of device control methods gives it); add_handler adds the two."""
    return prio if isinstance(prio, int) else prio[0] + prio[1]


def family_relative(nh=3):
    """Handlers with a relative priority, registered in every order and with prior registration histories."""
    ops = [(op, j) for op in ("add", "rm_key") for j in range(nh)]
    heads = [("a", p, r) for p in (1, 2, (1, 2), (2, 2), (1, 1)) for r in (True, False)]
    for head in itertools.product(heads, repeat=nh):
        if not any(not isinstance(h[1], int) for h in head):
            continue
        hs = tuple((h[0], h[1], (), None, (), h[2]) for h in head)
        for n in range(0, 3):
            for pre in itertools.product(ops, repeat=n):
                yield (hs, pre, (("post", "a", (), True),), "plain")


def family_history(nh=3):
    """Prior histories of registrations and removals before the post."""
    ops = [(op, j) for op in ("add", "rm_key", "rm_method") for j in range(nh)]
    heads = [("a", p, r) for p in (1, 2) for r in (True, False)]
    for head in itertools.product(heads, repeat=nh):
        hs = tuple((h[0], h[1], (), None, (), h[2]) for h in head)
        for n in range(1, 4):
            for pre in itertools.product(ops, repeat=n):
                yield (hs, pre, (("post", "a", (), True),), "plain")


def family_kwargs():
    """Handler kwargs colliding with posted kwargs, conditions in the event string."""
    hkws = ((), (("x", 0),), (("x", 1),), (("y", 1),))
    conds = (None, "x==1", "y==1")
    posted = ((), (("x", 0),), (("x", 1),), (("x", 1), ("y", 0)))
    types = [("a", p, k, c, (), True) for p in (1, 2) for k in hkws for c in conds]
    for n in (1, 2, 3):
        for hs in itertools.combinations_with_replacement(types, n):
            for kw in posted:
                yield (hs, (), (("post", "a", kw, True),), "plain")


def family_kinds(nh=3):
    """Boolean / relay posts inside forests: ordering and completeness with stopping handlers."""
    acts = [("post", "b"), ("bool", "a"), ("bool", "b"), ("relay", "b"), ("ret_false", None), ("ret_dict", None)]
    bodies = [()] + [(a,) for a in acts] + [(a, b) for a in acts[:4] for b in acts[4:]]
    types = [(e, p, (), None, b, True) for e in ("a", "b") for p in (1, 2) for b in bodies]
    for n in range(1, nh + 1):
        for hs in itertools.combinations_with_replacement(types, n):
            for roots in ((("bool", "a", (), True),), (("relay", "a", (), True), ("post", "b", (), False))):
                evs = reachable(hs, roots)
                if any(h[0] not in evs for h in hs):
                    continue
                yield (hs, (), roots, "plain")


def with_contexts(progs, contexts):
    for hs, pre, roots, _ in progs:
        for c in contexts:
            yield (hs, pre, roots, c)


def programs(tier):
    if tier == "quick":
        yield from family_forest(3, ("post", "post_cb"), 1)
        yield from family_forest(2, ("post", "post_cb"), 2)
        yield from family_registry(3)
        yield from family_history(2)
        yield from family_relative(2)
        yield from family_kwargs()
        yield from family_kinds(2)
        yield from with_contexts(family_forest(2, ("post", "post_cb"), 1),
                                 ("loop", "delay", "switch", "callback"))
        yield from family_forest(3, ("post", "run_now", "sw"), 1)
    else:
        yield from family_forest(4, ("post", "post_cb"), 1)
        yield from family_forest(3, ("post", "post_cb"), 2, total_actions=4)
        yield from family_registry(4)
        yield from family_history(3)
        yield from family_relative(3)
        yield from family_kwargs()
        yield from family_kinds(3)
        yield from with_contexts(family_forest(3, ("post", "post_cb"), 1),
                                 ("loop", "delay", "switch", "callback"))
        yield from family_forest(3, ("post", "run_now", "sw"), 2, total_actions=4)


# ------------------------------------------------------------------------------------------------
# worker
# ------------------------------------------------------------------------------------------------
_RUN = None


def _worker(arg):
    """Enumerate the same generator in every worker and execute the slice idx % n == wid."""
    global _RUN
    tier, wid, n = arg
    sysm = System("c01")
    run = Run(sysm)
    stats = {"programs": 0, "dispatches": 0, "nested_posts": 0, "multi_prio": 0, "cb": 0, "regops_in_dispatch": 0,
             "ties": 0, "ctx": {}}
    viols = {}
    outcomes = set()
    samples = []
    for idx, prog in enumerate(programs(tier)):
        if idx % n != wid:
            continue
        trace, posts = run.execute(prog)
        errs = sysm.loop.exc_log
        res = judge(prog, trace, posts)
        if errs:
            res.append(("EXC", "exception in loop: %r" % (errs[0].get("exception") or errs[0].get("message"))))
            sysm.loop.exc_log = []
        stats["programs"] += 1
        stats["dispatches"] += len(posts)
        stats["nested_posts"] += sum(1 for p in posts.values() if p["parent"] is not None)
        stats["cb"] += sum(1 for e in trace if e[0] == "cb")
        stats["ctx"][prog[3]] = stats["ctx"].get(prog[3], 0) + 1
        percall = {}
        for e in trace:
            if e[0] == "call":
                percall.setdefault(e[1], []).append(prog[0][e[2]][1])
        for pl in percall.values():
            if len(set(pl)) > 1:
                stats["multi_prio"] += 1
            if len(pl) != len(set(pl)):
                stats["ties"] += 1
        stats["regops_in_dispatch"] += sum(1 for a in prog[0] for b in a[4] if b[0] in ("add", "rm_key", "rm_method"))
        outcomes.add(hash(tuple((e[0], e[1] if len(e) > 1 else None, e[2] if len(e) > 2 and e[0] != "cb" else None)
                                for e in trace)))
        if len(samples) < 2 and len(posts) >= 4 and idx % 97 == 0:
            samples.append({"program": prog, "trace": [e[:3] for e in trace]})
        for mon, msg in res:
            sig = "%s:%s" % (mon, prog[3])
            if sig not in viols or len(repr(prog)) < len(repr(viols[sig][1])):
                viols[sig] = (msg, prog, [e[:3] for e in trace])
    sysm.close()
    return stats, viols, len(outcomes), samples


def body(ctx):
    tier = ctx.tier
    n = NPROC
    total = {}
    nout = 0
    for stats, viols, outcomes, samples in pmap(_worker, [(tier, w, n) for w in range(n)], chunksize=1, workers=n):
        for k, v in stats.items():
            if isinstance(v, dict):
                d = total.setdefault(k, {})
                for kk, vv in v.items():
                    d[kk] = d.get(kk, 0) + vv
            else:
                total[k] = total.get(k, 0) + v
        nout += outcomes
        for s in samples:
            ctx.sample(s)
        for sig, (msg, prog, trace) in viols.items():
            ctx.violation(sig, msg, {"program": prog, "trace": trace})
    ctx.add(states=total["dispatches"], transitions=total["dispatches"] + total["cb"],
            traces_validated_against_impl=total["programs"],
            evaluations=total["programs"], distinct_nontrivial=nout,
            rule="every handler program of the bounded families (forest, registry, history, kwargs, kinds, "
                 "contexts) is executed once on the real EventManager; distinct = distinct observed traces "
                 "(per worker, summed); non-trivial = at least one dispatch",
            exhaustive=True, programs=total["programs"], contexts=total["ctx"],
            dispatches_with_mixed_priorities=total["multi_prio"], dispatches_with_ties=total["ties"],
            nested_posts=total["nested_posts"], completion_callbacks=total["cb"],
            registry_ops_inside_dispatch=total["regops_in_dispatch"], posting_depth_bound=MAX_DEPTH)
    for g in ("nested_posts", "multi_prio", "cb", "regops_in_dispatch", "ties"):
        ctx.guard(g, total[g])
    ctx.assume("handler programs are bounded as listed in DESIGN.md C01 (<=3/4 handlers, <=2 actions, 3 event names, "
               "posting depth <= 3); kwargs values from {0,1}",
               "a state is one dispatch (event handed to its handlers); a transition is a dispatch or completion "
               "callback step observed in the trace; every trace is a trace of the real EventManager")
    return ("nested_posts", "multi_prio", "cb", "regops_in_dispatch", "ties")


def replay(ctx, data):
    prog = data["replay"]["program"]

    def tup(x):
        return tuple(tup(i) for i in x) if isinstance(x, list) else x
    prog = tup(prog)
    sysm = System("c01")
    trace, posts = Run(sysm).execute(prog)
    res = judge(prog, trace, posts)
    for e in trace:
        print("   ", e[:3])
    for mon, msg in res:
        print("  %s: %s" % (mon, msg))
    return not res


if __name__ == "__main__":
    runner.main("C01", "model_checking", body, replay)
