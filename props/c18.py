"""C18 — Logic blocks count, accrue and sequence exactly as specified.

Explicit-state BFS per logic-block configuration (counters over the configuration lattice, accruals,
sequences) on the real devices of a booted machine, with hit/control events and time choices; a
reference state machine written from the statement is compared after every transition.
"""
import itertools
import os
import sys

sys.path.insert(0, os.path.dirname(os.path.dirname(os.path.abspath(__file__))))

from mc import runner, VERIF  # noqa: E402
from mc.driver import MachineDriver, r6, simple_state  # noqa: E402
from mc.explore import bfs  # noqa: E402

EPS = 1e-6


def counter_configs():
    out = []
    pairs = {"up": ((0, 3), (5, 8), (0, None)), "down": ((3, 0), (10, 7), (5, None))}
    for direction, interval, pair, (roc, doc), window, timeout in itertools.product(
            ("up", "down"), (1, 2), (0, 1, 2), ((True, True), (True, False), (False, True), (False, False)),
            (0, 500), (0, 1000)):
        start, goal = pairs[direction][pair]
        out.append({"direction": direction, "interval": interval, "start": start, "goal": goal, "roc": roc, "doc": doc,
                    "window": window, "timeout": timeout})
    return out


def block_configs():
    return [{"roc": roc, "doc": doc, "timeout": t} for (roc, doc) in
            ((True, True), (True, False), (False, True), (False, False)) for t in (0, 1000)]


COUNTERS = counter_configs()
BLOCKS = block_configs()


def write_machine_config():
    """machines/c18/config/<device>.yaml: one machine config per configuration of the lattice (committed)."""
    path = os.path.join(VERIF, "machines", "c18", "config")
    os.makedirs(path, exist_ok=True)
    for i, c in enumerate(COUNTERS):
        n = "c%d" % i
        lines = ["#config_version=6", "counters:"]
        lines += ["  %s:" % n, "    count_events: %s_count" % n, "    enable_events: %s_enable" % n,
                  "    disable_events: %s_disable" % n, "    reset_events: %s_reset" % n,
                  "    restart_events: %s_restart" % n, "    direction: %s" % c["direction"],
                  "    count_interval: %d" % c["interval"], "    starting_count: %d" % c["start"],
                  "    reset_on_complete: %s" % str(c["roc"]).lower(),
                  "    disable_on_complete: %s" % str(c["doc"]).lower()]
        if c["goal"] is not None:
            lines.append("    count_complete_value: %d" % c["goal"])
        if c["window"]:
            lines.append("    multiple_hit_window: %dms" % c["window"])
        if c["timeout"]:
            lines.append("    logic_block_timeout: %dms" % c["timeout"])
        lines += ["    control_events:", "      - action: add", "        event: %s_add" % n, "        value: 1",
                  "      - action: subtract", "        event: %s_subtract" % n, "        value: 1",
                  "      - action: jump", "        event: %s_jump" % n, "        value: 2"]
        with open(os.path.join(path, n + ".yaml"), "w") as f:
            f.write("\n".join(lines) + "\n")
    for kind, sec in (("a", "accruals"), ("q", "sequences")):
        for i, c in enumerate(BLOCKS):
            n = "%s%d" % (kind, i)
            lines = ["#config_version=6", "%s:" % sec]
            # a sequence uses the same event for two consecutive steps: one hit must advance exactly one step
            evs = "%s_s0, %s_s1, %s_s2" % (n, n, n) if kind == "a" else "%s_s0, %s_s1, %s_s1, %s_s2" % (n, n, n, n)
            lines += ["  %s:" % n, "    events: %s" % evs, "    enable_events: %s_enable" % n,
                      "    disable_events: %s_disable" % n, "    reset_events: %s_reset" % n,
                      "    restart_events: %s_restart" % n,
                      "    reset_on_complete: %s" % str(c["roc"]).lower(),
                      "    disable_on_complete: %s" % str(c["doc"]).lower()]
            if c["timeout"]:
                lines.append("    logic_block_timeout: %dms" % c["timeout"])
            with open(os.path.join(path, n + ".yaml"), "w") as f:
                f.write("\n".join(lines) + "\n")


class BlockDriver(MachineDriver):
    machine_name = "c18"
    offer_hold = True
    kind = "c"
    index = 0

    def setup(self):
        self.name = "%s%d" % (self.kind, self.index)
        self.cfg = (COUNTERS if self.kind == "c" else BLOCKS)[self.index]
        coll = {"c": self.m.counters, "a": self.m.accruals, "q": self.m.sequences}[self.kind]
        self.dev = coll[self.name]
        self.evlog = []
        evs = ["logicblock_%s_hit" % self.name, "logicblock_%s_complete" % self.name, "%s_timeout" % self.name]
        if self.kind == "c":
            evs.append("counter_%s_hit" % self.name)
        for ev in evs:
            self.m.events.add_handler(ev, self._on, _ev=ev.replace(self.name, "X"))
        self.seen = 0
        # reference
        c = self.cfg
        self.ref_enabled = False
        self.ref_completed = False
        self.ref_value = self.start_value()
        self.window_until = None
        self.timeout_at = None

    def _on(self, _ev, **kwargs):
        self.evlog.append(_ev)

    def start_value(self):
        if self.kind == "c":
            return self.cfg["start"]
        if self.kind == "a":
            return [False, False, False]
        return 0

    def ops(self):
        base = ["enable", "disable", "reset", "restart"]
        if self.kind == "c":
            return ["count"] + base + ["add", "subtract", "jump"]
        return ["s0", "s1", "s2"] + base

    # ---- reference ----------------------------------------------------------------------------
    def r_timer_start(self, now):
        if self.cfg["timeout"]:
            self.timeout_at = now + self.cfg["timeout"] / 1000.0

    def r_reset(self, now):
        self.ref_completed = False
        self.ref_value = self.start_value()
        self.r_timer_start(now)

    def r_enable(self, now):
        self.ref_enabled = True
        self.r_timer_start(now)

    def r_disable(self):
        self.ref_enabled = False
        self.timeout_at = None

    def r_complete(self, now, exp):
        if self.ref_completed:
            return
        self.ref_completed = True
        self.timeout_at = None
        exp.append("logicblock_X_complete")
        self.stat("completions")
        if self.cfg["roc"]:
            self.r_reset(now)
        if self.cfg["doc"]:
            self.r_disable()

    def r_goal_reached(self):
        g = self.cfg["goal"]
        if g is None:
            return False
        return self.ref_value >= g if self.cfg["direction"] == "up" else self.ref_value <= g

    def r_op(self, op, now, exp):
        if op == "enable":
            self.r_enable(now)
        elif op == "disable":
            self.r_disable()
        elif op == "reset":
            self.r_reset(now)
        elif op == "restart":
            self.r_reset(now)
            self.r_enable(now)
        elif op == "count":
            if not self.ref_enabled:
                self.stat("hits_while_disabled")
                return
            if self.window_until is not None and now < self.window_until - EPS:
                self.stat("hits_inside_window")
                return
            if self.ref_completed:
                self.stat("hits_while_completed")
            step = self.cfg["interval"] * (1 if self.cfg["direction"] == "up" else -1)
            self.ref_value += step
            self.stat("accepted_hits")
            exp += ["counter_X_hit", "logicblock_X_hit"]
            if self.r_goal_reached():
                self.r_complete(now, exp)
            if self.cfg["window"]:
                self.window_until = now + self.cfg["window"] / 1000.0
        elif op in ("add", "subtract", "jump"):
            self.ref_value = {"add": self.ref_value + 1, "subtract": self.ref_value - 1, "jump": 2}[op]
            if self.r_goal_reached():
                self.r_complete(now, exp)
        elif op in ("s0", "s1", "s2"):
            step = int(op[1])
            if not self.ref_enabled:
                self.stat("hits_while_disabled")
                return
            if self.kind == "a":
                if not self.ref_value[step]:
                    self.ref_value[step] = True
                    self.stat("accepted_hits")
                    exp.append("logicblock_X_hit")
                if all(self.ref_value):
                    self.r_complete(now, exp)
            else:
                # steps of the sequence: s0, s1, s1, s2 - the event s1 stands for steps 1 and 2
                if self.ref_value not in {0: (0,), 1: (1, 2), 2: (3,)}[step]:
                    self.stat("out_of_order_steps")
                    return
                self.ref_value += 1
                self.stat("accepted_hits")
                exp.append("logicblock_X_hit")
                if self.ref_value >= 4:
                    self.r_complete(now, exp)

    def do_op(self, op):
        self.exp = []
        self.r_op(op, self.loop.time(), self.exp)
        self.m.events.post("%s_%s" % (self.name, op))

    def oracle(self, choice):
        now = self.loop.time()
        new = self.evlog[self.seen:]
        self.seen = len(self.evlog)
        if choice in ("T", "T+", "H"):
            exp = []
            if self.window_until is not None and self.window_until <= now + EPS:
                self.window_until = None
            if self.timeout_at is not None and self.timeout_at <= now + EPS:
                self.timeout_at = None
                exp.append("X_timeout")
                self.stat("timeouts")
                self.r_reset(now)
        else:
            exp = self.exp
        sig_op = choice if isinstance(choice, str) else choice[0]
        if sorted(new) != sorted(exp):
            self.violate("events:%s" % sig_op, "%s %r: after %r events %r, expected %r" %
                         (self.name, self.cfg, choice, new, exp))
        got = (self.dev.value if self.kind != "a" else list(self.dev.value), bool(self.dev.enabled), bool(self.dev.completed))
        ref = (self.ref_value, self.ref_enabled, self.ref_completed)
        if got != ref:
            self.violate("state:%s" % sig_op, "%s %r: after %r (value, enabled, completed) = %r, reference %r" %
                         (self.name, self.cfg, choice, got, ref))
        if self.timeout_at is not None:
            self.expect_timer_by(self.timeout_at, "logic block timeout")
        if self.window_until is not None and self.window_until > now + EPS:
            self.expect_timer_by(self.window_until, "end of the multiple-hit window")

    def fingerprint(self):
        now = self.loop.time()
        return (repr(self.ref_value), self.ref_enabled, self.ref_completed,
                None if self.window_until is None else r6(self.window_until - now),
                None if self.timeout_at is None else r6(self.timeout_at - now), self.rel_timers(),
                simple_state(self.dev, exclude=("delay", "_state"), now=now),
                simple_state(self.dev._state) if self.dev._state is not None else None)

    def observe(self):
        return {"device": self.name, "config": self.cfg, "events": list(self.evlog),
                "value": repr(self.dev.value), "enabled": bool(self.dev.enabled), "completed": bool(self.dev.completed)}


def make(kind, index):
    class D(BlockDriver):
        pass
    D.kind = kind
    D.index = index
    D.config_file = "%s%d.yaml" % (kind, index)
    D.__name__ = "BlockDriver_%s%d" % (kind, index)
    return D


def body(ctx):
    quick = ctx.tier == "quick"
    seed = ctx.seed
    idxs = list(range(len(COUNTERS)))
    if quick:
        # a covering subset: every value of every dimension appears with every value of window/timeout
        sel = [i for i in idxs if i % 8 == (i // 8 + seed) % 8]
    else:
        sel = idxs
    plans = [("c", i, 5 if quick else 6) for i in sel]
    plans += [("a", i, 5 if quick else 7) for i in range(len(BLOCKS))]
    plans += [("q", i, 5 if quick else 7) for i in range(len(BLOCKS))]
    detail = {}
    facts = [make(kind, i) for kind, i, _ in plans]
    depth = 6 if quick else 7
    res = bfs(facts, depth, observe=True)
    states, trans = res.states, res.transitions
    detail = {"depth": depth, "levels": res.levels, "frontier_emptied": res.frontier_emptied,
              "devices": ["%s%d" % (k, i) for k, i, _ in plans]}
    for s in res.samples[:3]:
        ctx.sample(s)
    for sig, (what, hist) in res.violations.items():
        kind, i, _ = plans[hist[0][1]]
        ctx.violation("%s:%s" % ({"c": "counter", "a": "accrual", "q": "sequence"}[kind], sig), what,
                      {"kind": kind, "index": i, "history": hist[1:]})
    for k, v in res.stats.items():
        ctx.guard(k, v)
    ctx.add(states=states, transitions=trans, traces_validated_against_impl=trans, searches=detail,
            configurations=len(plans), counter_configurations_total=len(COUNTERS), exhaustive=True)
    ctx.assume("counter configurations from the product direction x interval{1,2} x (start,goal) x reset/disable on "
               "complete x window{0,500ms} x timeout{0,1s}; quick explores every 8th configuration (rotated by "
               "VERIF_SEED), thorough all %d" % len(COUNTERS),
               "events arriving exactly at the window end / timeout instant are explored only in the order "
               "timer first, then event")
    return ("accepted_hits", "hits_while_disabled", "hits_inside_window", "hits_while_completed", "completions",
            "timeouts", "out_of_order_steps")


def replay(ctx, data):
    rp = data["replay"]
    d = make(rp["kind"], rp["index"])()
    d.boot()
    for c in rp["history"]:
        d.step(c)
        print("  step %r -> %s" % (c, d.observe()))
    for sig, what in d.violations:
        print("  %s: %s" % (sig, what))
    return not d.violations


if __name__ == "__main__":
    if len(sys.argv) > 1 and sys.argv[1] == "--write-config":
        write_machine_config()
        sys.exit(0)
    runner.main("C18", "model_checking", body, replay)
