"""C08 — Coils are never driven beyond their configured safety limits.

(a) exhaustive enumeration of actuation requests: every entry point (pulse / enable / timed_enable
    calls, control events with parameters, coil_player entries, dual-wound coil, digital output)
    x every parameter tuple of the value alphabet x every coil of the limit-configuration lattice;
(b) explicit-state BFS over pulse / enable / disable histories with software timers pending;
(c) hardware rules of flippers / autofire coils (with and without overwrites) observed at the
    platform's set_*_rule interface.
Every command observed at the platform driver interface is judged against the envelope of the coil's
configuration; a request outside a limit must raise and issue no command.
"""
import itertools
import os
import sys

sys.path.insert(0, os.path.dirname(os.path.dirname(os.path.abspath(__file__))))

from mc import runner, VERIF  # noqa: E402
from mc.boot import System  # noqa: E402
from mc.driver import MachineDriver, r6  # noqa: E402
from mc.explore import bfs, pmap, NPROC  # noqa: E402

from mpf.core.delays import DelayManager  # noqa: E402

MS = [None, 0, 1, 10, 50, 51, 255, 256, 300, -1, 2.5]
POWER = [None, 0, 0.125, 0.25, 0.5, 1.0, 1.5, -0.5]
PLATFORM_MAX_PULSE = 255
DEFAULT_PULSE_MS = 10
EPS = 1e-6


def lattice():
    out = []
    for mpm, mpp, mhp, allow, dhp, mhd, pwte in itertools.product((None, 50), (None, 0.5), (None, 0.25), (False, True),
                                                                  (None, 0.125), (None, 2), (False, True)):
        out.append({"max_pulse_ms": mpm, "max_pulse_power": mpp, "max_hold_power": mhp, "allow_enable": allow,
                    "default_hold_power": dhp, "max_hold_duration": mhd, "pulse_with_timed_enable": pwte})
    return out


LATTICE = lattice()


def coil_yaml(name, number, c):
    lines = ["  %s:" % name, "    number: %d" % number]
    if c["max_pulse_ms"] is not None:
        lines.append("    max_pulse_ms: %d" % c["max_pulse_ms"])
    if c["max_pulse_power"] is not None:
        lines.append("    max_pulse_power: %s" % c["max_pulse_power"])
        lines.append("    default_pulse_power: %s" % c["max_pulse_power"])
    if c["max_hold_power"] is not None:
        lines.append("    max_hold_power: %s" % c["max_hold_power"])
    if c["allow_enable"]:
        lines.append("    allow_enable: true")
    if c["default_hold_power"] is not None:
        lines.append("    default_hold_power: %s" % c["default_hold_power"])
    if c["max_hold_duration"] is not None:
        lines.append("    max_hold_duration: %ss" % c["max_hold_duration"])
    if c["pulse_with_timed_enable"]:
        lines.append("    pulse_with_timed_enable: true")
    lines += ["    pulse_events: %s_ev_pulse" % name, "    enable_events: %s_ev_enable" % name,
              "    disable_events: %s_ev_disable" % name, "    timed_enable_events: %s_ev_timed" % name]
    return lines


def write_machine_config():
    path = os.path.join(VERIF, "machines", "c08", "config")
    os.makedirs(path, exist_ok=True)
    lines = ["#config_version=6", "coils:"]
    for i, c in enumerate(LATTICE):
        lines += coil_yaml("k%d" % i, i + 1, c)
    # coils used by composite devices
    extra = {"fm": (200, {"max_pulse_ms": 50, "max_pulse_power": None, "max_hold_power": None, "allow_enable": False,
                          "default_hold_power": None, "max_hold_duration": None, "pulse_with_timed_enable": False}),
             "fh": (201, {"max_pulse_ms": None, "max_pulse_power": None, "max_hold_power": 0.25, "allow_enable": False,
                          "default_hold_power": 0.125, "max_hold_duration": None, "pulse_with_timed_enable": False}),
             "fs": (202, {"max_pulse_ms": 50, "max_pulse_power": 0.5, "max_hold_power": 0.25, "allow_enable": False,
                          "default_hold_power": 0.125, "max_hold_duration": None, "pulse_with_timed_enable": False}),
             "af": (203, {"max_pulse_ms": 50, "max_pulse_power": 0.5, "max_hold_power": None, "allow_enable": False,
                          "default_hold_power": None, "max_hold_duration": None, "pulse_with_timed_enable": False})}
    for n, (num, c) in extra.items():
        lines += coil_yaml(n, num, c)
    # a coil whose default pulse time is a template over an operator setting: the limit has to hold for the value the
    # setting has when the coil is used, not only for the one it had when the coil was configured
    lines += ["  kt:", "    number: 220", "    default_pulse_ms: settings.coil_pulse", "    max_pulse_ms: 30",
              "    pulse_events: kt_ev_pulse"]
    lines += ["switches:", "  s_flip:", "    number: 1", "  s_flip2:", "    number: 2", "  s_sling:", "    number: 3", "  s_flip3:", "    number: 4",
              "dual_wound_coils:", "  dw:", "    main_coil: fm", "    hold_coil: fh",
              "digital_outputs:", "  do1:", "    number: 210", "    type: driver",
              "flippers:", "  f_dual:", "    main_coil: fm", "    hold_coil: fh", "    activation_switch: s_flip",
              "  f_single:", "    main_coil: fs", "    activation_switch: s_flip2",
              "  f_over:", "    main_coil: fs", "    activation_switch: s_flip3", "    main_coil_overwrite:",
              "      hold_power: 0.5",
              "autofire_coils:", "  a1:", "    coil: af", "    switch: s_sling",
              "  a_ok:", "    coil: af", "    switch: s_sling", "    coil_overwrite:", "      pulse_ms: 20",
              "      pulse_power: 0.25",
              "  a_over_ms:", "    coil: af", "    switch: s_sling", "    coil_overwrite:", "      pulse_ms: 80",
              "  a_over_pw:", "    coil: af", "    switch: s_sling", "    coil_overwrite:", "      pulse_power: 1.0",
              "settings:", "  coil_pulse:", "    label: coil pulse", "    sort: 1", "    key_type: int", "    default: 10",
              "    values:", "      10: weak", "      20: normal", "      50: too strong",
              "coil_player:", "  cp_pulse_kt:", "    kt:", "      action: pulse"]
    for i in (0, 5, 64, 127):
        lines += ["  cp_pulse_k%d:" % i, "    k%d:" % i, "      action: pulse"]
    with open(os.path.join(path, "config.yaml"), "w") as f:
        f.write("\n".join(lines) + "\n")
    for i in range(len(LATTICE)):
        sub = ["#config_version=6", "coils:"] + coil_yaml("k%d" % i, i + 1, LATTICE[i])
        with open(os.path.join(path, "k%d.yaml" % i), "w") as f:
            f.write("\n".join(sub) + "\n")


# ------------------------------------------------------------------------------------------------
# envelope (reference, written from the statement)
# ------------------------------------------------------------------------------------------------
class Envelope:
    def __init__(self, cfg):
        self.cfg = cfg
        self.max_pulse_ms = cfg["max_pulse_ms"]
        self.max_pulse_power = cfg["max_pulse_power"] if cfg["max_pulse_power"] else 1.0
        if cfg["max_hold_power"]:
            self.max_hold_power = cfg["max_hold_power"]
        elif cfg["allow_enable"]:
            self.max_hold_power = 1.0
        elif cfg["default_hold_power"]:
            self.max_hold_power = cfg["default_hold_power"]
        else:
            self.max_hold_power = 0.0
        self.may_hold = self.max_hold_power > 0

    def bad_pulse(self, power, duration, software_timed=False):
        """Reason why a pulse component is outside the envelope, or None."""
        if duration is not None:
            if duration < 0:
                return "negative pulse duration %s" % duration
            if self.max_pulse_ms and duration > self.max_pulse_ms:
                return "pulse of %s ms exceeds max_pulse_ms %s" % (duration, self.max_pulse_ms)
        if power is not None:
            if power < 0:
                return "negative pulse power %s" % power
            if power > self.max_pulse_power + EPS:
                return "pulse power %s exceeds max_pulse_power %s" % (power, self.max_pulse_power)
        return None

    def bad_hold(self, power):
        if power is None:
            return None
        if power < 0:
            return "negative hold power %s" % power
        if power > self.max_hold_power + EPS:
            return "hold power %s exceeds max_hold_power %s" % (power, self.max_hold_power)
        return None

    def request_invalid(self, ms=None, power=None, hold=None):
        """Does a request carry a value outside a limit or a negative value? (None = default, always fine)"""
        if ms is not None:
            if not isinstance(ms, int) or ms < 0 or (self.max_pulse_ms and ms > self.max_pulse_ms):
                return True
        if power is not None and (power < 0 or power > self.max_pulse_power + EPS):
            return True
        if hold is not None and (hold < 0 or hold > self.max_hold_power + EPS):
            return True
        return False


class HwSpy:
    """Wraps the four methods of a platform driver object; keeps a log and the on/off state."""

    def __init__(self, loop, hw, name):
        self.log = []
        self.on = False
        self.loop = loop
        self.name = name
        for meth in ("pulse", "enable", "disable", "timed_enable"):
            orig = getattr(hw, meth)
            setattr(hw, meth, self._wrap(meth, orig))

    def _wrap(self, meth, orig):
        def f(*args, **kwargs):
            self.log.append((self.loop.time(), meth, args))
            if meth == "enable":
                self.on = True
            elif meth == "disable":
                self.on = False
            return orig(*args, **kwargs)
        return f


def judge_command(env, cmd, software_pulse_ms=None):
    """Envelope check of one hw command; returns reason or None."""
    _, meth, args = cmd
    if meth == "pulse":
        ps = args[0]
        return env.bad_pulse(ps.power, ps.duration)
    if meth == "enable":
        ps, hs = args[0], args[1]
        if software_pulse_ms is not None:
            # software-timed pulse: enable + pending timed disable; judged as a pulse of that duration
            return env.bad_pulse(hs.power, software_pulse_ms) or env.bad_pulse(ps.power, ps.duration)
        r = env.bad_pulse(ps.power, ps.duration) or env.bad_hold(hs.power)
        if r:
            return r
        if not env.may_hold:
            return "coil held on although its configuration does not allow holding"
        return None
    if meth == "timed_enable":
        ps, hs = args[0], args[1]
        r = env.bad_pulse(ps.power, ps.duration) or env.bad_hold(hs.power)
        if r:
            return r
        if hs.duration is not None and hs.duration < 0:
            return "negative hold duration %s" % hs.duration
        return None
    return None


# ------------------------------------------------------------------------------------------------
# (a) inputs
# ------------------------------------------------------------------------------------------------
def _input_worker(arg):
    wid, n = arg
    sysm = System("c08")
    m = sysm.machine
    loop = sysm.loop
    viols = {}
    count = refused = accepted = commands = 0
    outcomes = set()
    sample = []

    def bad(sig, msg, rp):
        if sig not in viols:
            viols[sig] = (msg, rp)

    for i, cfg in enumerate(LATTICE):
        if i % n != wid:
            continue
        name = "k%d" % i
        coil = m.coils[name]
        env = Envelope(cfg)
        spy = HwSpy(loop, coil.hw_driver, name)
        sw_box = []

        class SpyDelay(DelayManager):
            """Same manager; remembers when a software-timed pulse is armed (DelayManager has __slots__)."""
            __slots__ = []

            def reset(self_inner, ms, callback, name, _box=sw_box, **kwargs):
                if name == "timed_disable":
                    _box.append(ms)
                return DelayManager.reset(self_inner, ms, callback, name, **kwargs)
        coil.delay = SpyDelay(m)

        def run(entry, call, ms, power, hold=None, timed=None):
            nonlocal count, refused, accepted, commands
            count += 1
            spy.log.clear()
            del sw_box[:]
            exc = None
            try:
                call()
                m.events.process_event_queue()
                loop.drain()
            except BaseException as e:      # noqa
                exc = e
            errs = loop.exc_log
            loop.exc_log = []
            if errs and exc is None:
                exc = errs[0].get("exception") or Exception(str(errs[0]))
            cmds = list(spy.log)
            invalid = env.request_invalid(ms, power, hold)
            rp = {"coil": name, "config": cfg, "entry": entry, "ms": ms, "power": power, "hold": hold, "timed": timed}
            sw_ms = sw_box[-1] if sw_box else None      # a software-timed pulse was armed during this request
            if exc is not None:
                refused += 1
            else:
                accepted += 1
            commands += len(cmds)
            outcomes.add((entry, invalid, exc is not None, tuple(c[1] for c in cmds)))
            # envelope on every command
            for c in cmds:
                r = judge_command(env, c, sw_ms if c[1] == "enable" else None)
                if r:
                    kind = "negative" if "negative" in r else ("hold" if "hold" in r else "limit")
                    bad("envelope:%s:%s:%s" % (entry.split(":")[0], c[1], kind),
                        "%s(%s) on %s %r sent %s%r: %s" % (entry, {"ms": ms, "power": power, "hold": hold}, name,
                                                         {k: v for k, v in cfg.items() if v}, c[1], c[2], r), rp)
            if invalid and exc is None:
                kind = "negative" if ((isinstance(ms, (int, float)) and ms < 0) or (power is not None and power < 0) or
                                      (hold is not None and hold < 0)) else "over-limit"
                bad("not-refused:%s:%s" % (entry.split(":")[0], kind),
                    "%s(ms=%r, power=%r, hold=%r) on %s %r is outside a limit but was not refused; commands: %r" %
                    (entry, ms, power, hold, name, {k: v for k, v in cfg.items() if v}, [(c[1], c[2]) for c in cmds]), rp)
            # clean up: run pending software timers, switch off
            loop.run_to_rest(5.0)
            try:
                coil.disable()
            except BaseException:       # noqa
                pass
            loop.drain()
            loop.exc_log = []
            if len(sample) < 2 and count % 4001 == 0:
                sample.append({"request": rp, "refused": exc is not None, "commands": [(c[1], repr(c[2])) for c in cmds]})

        for ms, power in itertools.product(MS, POWER):
            run("pulse", lambda: coil.pulse(pulse_ms=ms, pulse_power=power), ms, power)
            kw = {}
            if ms is not None:
                kw["pulse_ms"] = ms
            if power is not None:
                kw["pulse_power"] = power
            run("event_pulse", lambda: m.events.post("%s_ev_pulse" % name, **kw), ms, power)
        for ms, power, hold in itertools.product((None, 10, 51, -1), (None, 0.5, 1.5, -0.5), POWER):
            run("enable", lambda: coil.enable(pulse_ms=ms, pulse_power=power, hold_power=hold), ms, power, hold)
            kw = {k: v for k, v in (("pulse_ms", ms), ("pulse_power", power), ("hold_power", hold)) if v is not None}
            run("event_enable", lambda: m.events.post("%s_ev_enable" % name, **kw), ms, power, hold)
        for timed, hold, ms, power in itertools.product((None, 100, -5), (None, 0.125, 0.5, -0.5), (None, 10, 51, -1),
                                                        (None, 0.5, 1.5)):
            run("timed_enable", lambda: coil.timed_enable(timed_enable_ms=timed, hold_power=hold, pulse_ms=ms,
                                                          pulse_power=power), ms, power, hold, timed)
        if i in (0, 5, 64, 127):
            for ms, power in itertools.product(MS, POWER):
                kw = {k: v for k, v in (("pulse_ms", ms), ("pulse_power", power)) if v is not None}
                run("coil_player", lambda: m.events.post("cp_pulse_k%d" % i, **kw), None, None)
    # dual wound coil + digital output (worker 0 only)
    if wid == 0:
        for cname, mainc, holdc in (("dw", "fm", "fh"),):
            dw = m.dual_wound_coils[cname]
            envm = Envelope({"max_pulse_ms": 50, "max_pulse_power": None, "max_hold_power": None, "allow_enable": False,
                             "default_hold_power": None})
            envh = Envelope({"max_pulse_ms": None, "max_pulse_power": None, "max_hold_power": 0.25, "allow_enable": False,
                             "default_hold_power": 0.125})
            spm = HwSpy(loop, m.coils[mainc].hw_driver, mainc)
            sph = HwSpy(loop, m.coils[holdc].hw_driver, holdc)
            for ms, power in itertools.product(MS, POWER):
                for entry, call in (("dual:pulse", lambda: dw.pulse(pulse_ms=ms, pulse_power=power)),
                                    ("dual:enable", lambda: dw.enable(pulse_ms=ms, pulse_power=power))):
                    count += 1
                    spm.log.clear()
                    sph.log.clear()
                    exc = None
                    try:
                        call()
                        loop.drain()
                    except BaseException as e:      # noqa
                        exc = e
                    for envx, spx, nm in ((envm, spm, mainc), (envh, sph, holdc)):
                        for c in spx.log:
                            sw = None
                            if c[1] == "enable" and m.coils[nm].delay.check("timed_disable"):
                                sw = ms if ms is not None else DEFAULT_PULSE_MS
                            r = judge_command(envx, c, sw)
                            if r:
                                bad("envelope:%s:%s" % (entry, "negative" if "negative" in r else "limit"),
                                    "%s(ms=%r, power=%r) sent %s%r to %s: %s" % (entry, ms, power, c[1], c[2], nm, r),
                                    {"entry": entry, "ms": ms, "power": power})
                    if envm.request_invalid(ms, power) and exc is None and (spm.log or sph.log):
                        bad("not-refused:%s" % entry, "%s(ms=%r, power=%r) outside the main coil's limits was not refused: %r"
                            % (entry, ms, power, [(c[1], c[2]) for c in spm.log]), {"entry": entry, "ms": ms, "power": power})
                    loop.run_to_rest(5.0)
                    try:
                        dw.disable()
                    except BaseException:   # noqa
                        pass
                    loop.drain()
                    loop.exc_log = []
        do = m.digital_outputs["do1"]
        spd = HwSpy(loop, do.hw_driver, "do1")
        envd = Envelope({"max_pulse_ms": 255, "max_pulse_power": None, "max_hold_power": None, "allow_enable": True,
                         "default_hold_power": None})
        for ms in (1, 10, 255, 256, 300, -1, 0):
            count += 1
            spd.log.clear()
            exc = None
            try:
                do.pulse(ms)
                loop.drain()
            except BaseException as e:      # noqa
                exc = e
            for c in spd.log:
                r = judge_command(envd, c)
                if r:
                    bad("envelope:digital_output:%s" % ("negative" if "negative" in r else "limit"),
                        "DigitalOutput.pulse(%r) sent %s%r although the driver is configured with max_pulse_ms=255: %s" %
                        (ms, c[1], c[2], r), {"entry": "digital_output", "ms": ms})
        # the coil with a default pulse time taken from a setting, for every value of the setting in turn
        kt = m.coils["kt"]
        spt = HwSpy(loop, kt.hw_driver, "kt")
        envt = Envelope({"max_pulse_ms": 30, "max_pulse_power": None, "max_hold_power": None, "allow_enable": False,
                         "default_hold_power": None})
        for val in (10, 20, 50, 20, 50, 10):
            m.settings.set_setting_value("coil_pulse", val)
            loop.drain()
            for entry in ("pulse()", "event", "coil_player"):
                count += 1
                spt.log.clear()
                try:
                    if entry == "pulse()":
                        kt.pulse()
                    elif entry == "event":
                        m.events.post("kt_ev_pulse")
                    else:
                        m.events.post("cp_pulse_kt")
                    loop.drain()
                except BaseException:   # noqa
                    pass
                loop.exc_log = []
                commands += len(spt.log)
                if val <= 30 and not any(c[1] == "pulse" for c in spt.log):
                    bad("template-default:not-pulsed", "kt (default_pulse_ms: settings.coil_pulse = %d, max_pulse_ms 30) did not pulse on %s" %
                        (val, entry), {"entry": "template_default", "value": val})
                for c in spt.log:
                    r = judge_command(envt, c)
                    if r:
                        bad("envelope:template-default:limit", "kt %s with settings.coil_pulse = %d sent %s%r although max_pulse_ms is 30: %s" %
                            (entry, val, c[1], c[2], r), {"entry": "template_default", "value": val})
    sysm.close()
    return count, refused, accepted, commands, len(outcomes), viols, sample


# ------------------------------------------------------------------------------------------------
# (b) histories
# ------------------------------------------------------------------------------------------------
class CoilHistoryDriver(MachineDriver):
    machine_name = "c08"
    offer_hold = True
    index = 0
    OPS = [["pulse", 300], ["pulse", 10], ["pulse", 260], ["enable"], ["disable"], ["timed", 100]]

    def setup(self):
        self.cfg = LATTICE[self.index]
        self.env = Envelope(self.cfg)
        self.coil = self.m.coils["k%d" % self.index]
        self.spy = HwSpy(self.loop, self.coil.hw_driver, self.coil.name)
        self.seen = 0
        self.sw_deadline = None      # software-timed pulse must be off by then
        self.hold_since = None       # explicit enable accepted at (for max_hold_duration)
        self.justified_on = False

    def ops(self):
        return [list(o) for o in self.OPS]

    def do_op(self, op):
        now = self.loop.time()
        self.exc = None
        try:
            if op[0] == "pulse":
                self.coil.pulse(pulse_ms=op[1])
            elif op[0] == "enable":
                self.coil.enable()
            elif op[0] == "disable":
                self.coil.disable()
            elif op[0] == "timed":
                self.coil.timed_enable(timed_enable_ms=op[1])
        except BaseException as e:      # noqa
            self.exc = e
        self.op_time = now

    def oracle(self, choice):
        now = self.loop.time()
        new = self.spy.log[self.seen:]
        self.seen = len(self.spy.log)
        env = self.env
        is_op = not isinstance(choice, str)
        for c in new:
            t, meth, args = c
            sw = None
            if meth == "enable" and is_op and choice[0] == "pulse":
                sw = choice[1]
                self.sw_deadline = t + sw / 1000.0
                self.stat("software_timed_pulses")
            elif meth == "enable":
                if self.hold_since is None:
                    self.hold_since = t
                self.stat("holds")
            elif meth == "disable":
                self.hold_since = None
                if self.sw_deadline is not None and t <= self.sw_deadline + EPS:
                    pass
            r = judge_command(env, c, sw)
            if r:
                self.violate("hist-envelope:%s" % meth, "k%d %r: %s%r after %r: %s" %
                             (self.index, {k: v for k, v in self.cfg.items() if v}, meth, args, choice, r))
        if is_op and choice[0] == "pulse" and self.exc is None and choice[1] > PLATFORM_MAX_PULSE and not \
                self.cfg["pulse_with_timed_enable"] and not any(c[1] == "enable" for c in new):
            pass
        # a software-timed pulse is off once its time is up (unless an explicit, allowed enable came later)
        if self.sw_deadline is not None and now >= self.sw_deadline - EPS:
            if self.spy.on and (self.hold_since is None or self.hold_since < self.sw_deadline - 10):
                explicit = any(c[1] == "enable" for c in self.spy.log if c[0] > self.sw_deadline + EPS)
                if not explicit and not self._explicit_hold_after_pulse():
                    self.violate("software-pulse-not-off", "k%d: software-timed pulse due off at t=%.3f but the coil is "
                                 "still on at t=%.3f" % (self.index, self.sw_deadline - self.t0, now - self.t0))
            if not self.spy.on:
                self.sw_deadline = None
                self.stat("software_pulses_ended")
        if self.sw_deadline is not None and self.spy.on:
            self.expect_timer_by(self.sw_deadline, "software-timed pulse disable")
        # max_hold_duration
        mhd = self.cfg["max_hold_duration"]
        if mhd and self.spy.on and self.hold_since is not None:
            if now >= self.hold_since + mhd - EPS and self.sw_deadline is None:
                self.violate("max-hold-duration", "k%d: held since t=%.3f, max_hold_duration %ss, still on at t=%.3f" %
                             (self.index, self.hold_since - self.t0, mhd, now - self.t0))
            elif self.sw_deadline is None:
                self.expect_timer_by(self.hold_since + mhd, "max_hold_duration watchdog")
                self.stat("watchdog_pending")
        # at rest a coil that may not be held is off
        if self.loop.next_deadline() is None and self.spy.on and not env.may_hold:
            self.violate("left-on", "k%d: no timer pending and the coil is held on although holding is not allowed" %
                         self.index)

    def _explicit_hold_after_pulse(self):
        # an explicit enable() accepted on a coil that may hold justifies "on" beyond the software pulse
        last_enable = [c for c in self.spy.log if c[1] == "enable"]
        return self.env.may_hold and self.hold_since is not None

    def fingerprint(self):
        now = self.loop.time()
        return (self.spy.on, None if self.sw_deadline is None else r6(self.sw_deadline - now),
                None if self.hold_since is None else min(r6(now - self.hold_since), 3.0), self.rel_timers())

    def observe(self):
        return {"coil": "k%d" % self.index, "config": {k: v for k, v in self.cfg.items() if v},
                "hw": [(r6(t - self.t0), mth, repr(a)) for t, mth, a in self.spy.log], "on": self.spy.on}


def make_hist(i):
    class D(CoilHistoryDriver):
        pass
    D.index = i
    D.config_file = "k%d.yaml" % i
    D.__name__ = "CoilHistory_k%d" % i
    return D


# ------------------------------------------------------------------------------------------------
# (c) rules
# ------------------------------------------------------------------------------------------------
def check_rules(ctx):
    sysm = System("c08")
    m = sysm.machine
    plat = m.default_platform
    seen = []
    for meth in [x for x in dir(plat) if x.startswith("set_") and x.endswith("_rule")]:
        orig = getattr(plat, meth)

        def f(*args, _meth=meth, _orig=orig, **kwargs):
            seen.append((_meth, args, kwargs))
            return _orig(*args, **kwargs)
        setattr(plat, meth, f)
    envs = {"fm": Envelope({"max_pulse_ms": 50, "max_pulse_power": None, "max_hold_power": None, "allow_enable": False,
                            "default_hold_power": None}),
            "fh": Envelope({"max_pulse_ms": None, "max_pulse_power": None, "max_hold_power": 0.25, "allow_enable": False,
                            "default_hold_power": 0.125}),
            "fs": Envelope({"max_pulse_ms": 50, "max_pulse_power": 0.5, "max_hold_power": 0.25, "allow_enable": False,
                            "default_hold_power": 0.125}),
            "af": Envelope({"max_pulse_ms": 50, "max_pulse_power": 0.5, "max_hold_power": None, "allow_enable": False,
                            "default_hold_power": None})}
    byhw = {m.coils[n].hw_driver: n for n in envs}
    nrules = 0
    devices = [(m.flippers["f_dual"], False), (m.flippers["f_single"], False), (m.autofire_coils["a1"], False),
               (m.autofire_coils["a_ok"], False), (m.autofire_coils["a_over_ms"], True),
               (m.autofire_coils["a_over_pw"], True), (m.flippers["f_over"], True)]
    for dev, over in devices:
        seen.clear()
        raised = None
        try:
            dev.enable()
            sysm.loop.drain()
        except BaseException as e:      # noqa
            raised = e
        if over:
            ctx.guard("over_limit_rules", 1)
            if raised is None:
                ctx.violation("rule-not-refused", "%s has an overwrite above its coil's limit but enable() did not refuse it; "
                              "rules installed: %r" % (dev.name, [s_[0] for s_ in seen]), {"device": dev.name})
        elif raised is not None:
            ctx.notes.append("enable of %s raised %r" % (dev.name, raised))
        for meth, args, kwargs in seen:
            for a in list(args) + list(kwargs.values()):
                if a.__class__.__name__ == "DriverSettings":
                    nrules += 1
                    name = byhw.get(a.hw_driver)
                    if name is None:
                        continue
                    env = envs[name]
                    r = env.bad_pulse(a.pulse_settings.power, a.pulse_settings.duration)
                    if not r and a.hold_settings is not None:
                        r = env.bad_hold(a.hold_settings.power)
                    if r:
                        ctx.violation("rule-envelope:%s" % meth, "%s installed %s on coil %s with %r / %r: %s" %
                                      (dev.name, meth, name, a.pulse_settings, a.hold_settings, r),
                                      {"device": dev.name, "rule": meth})
        try:
            dev.disable()
        except BaseException:       # noqa
            pass
        sysm.loop.drain()
    # software flip on the flippers
    for fl in ("f_dual", "f_single"):
        spies = {n: HwSpy(sysm.loop, m.coils[n].hw_driver, n) for n in ("fm", "fh", "fs")}
        m.flippers[fl].enable()
        m.flippers[fl].sw_flip()
        sysm.loop.drain()
        for n, sp in spies.items():
            for c in sp.log:
                r = judge_command(envs[n], c)
                if r:
                    ctx.violation("swflip-envelope", "sw_flip of %s sent %s%r to %s: %s" % (fl, c[1], c[2], n, r),
                                  {"device": fl})
        m.flippers[fl].sw_release()
        m.flippers[fl].disable()
        sysm.loop.run_to_rest(2.0)
        for n, sp in spies.items():
            if sp.on:
                ctx.violation("swflip-left-on", "coil %s left on after sw_release/disable of %s" % (n, fl), {"device": fl})
    ctx.guard("rules_checked", nrules)
    sysm.close()
    return nrules


def body(ctx):
    n = NPROC
    total = refused = accepted = commands = outc = 0
    for count, rf, ac, cm, oc, viols, sample in pmap(_input_worker, [(w, n) for w in range(n)], chunksize=1, workers=n):
        total += count
        refused += rf
        accepted += ac
        commands += cm
        outc += oc
        for s in sample:
            ctx.sample(s)
        for sig, (msg, rp) in viols.items():
            ctx.violation(sig, msg, rp)
    quick = ctx.tier == "quick"
    idx = [i for i in range(len(LATTICE)) if quick and i % 16 == (i // 16 + ctx.seed) % 16] if quick else \
        list(range(len(LATTICE)))
    res = bfs([make_hist(i) for i in idx], 6 if quick else 7, observe=True)
    for s in res.samples[:2]:
        ctx.sample(s)
    for sig, (what, hist) in res.violations.items():
        ctx.violation(sig, what, {"search": "history", "index": idx[hist[0][1]], "history": hist[1:]})
    for k, v in res.stats.items():
        ctx.guard(k, v)
    nrules = check_rules(ctx)
    ctx.guard("refused", refused)
    ctx.guard("accepted", accepted)
    ctx.add(states=res.states, transitions=res.transitions, traces_validated_against_impl=res.transitions + total,
            evaluations=total, distinct_nontrivial=outc, requests=total, requests_refused=refused,
            requests_accepted=accepted, hw_commands_judged=commands, coil_configurations=len(LATTICE),
            history_configurations=len(idx), history_levels=res.levels, rules_checked=nrules, exhaustive=True)
    ctx.assume("value alphabets ms %r, power %r; 128 coil configurations" % (MS, POWER),
               "covers the actuation paths that exist today (pulse/enable/timed_enable calls and control events, "
               "coil_player, dual-wound coil, digital output, flipper/autofire rules, software flip); it cannot speak about "
               "devices not yet written",
               "a software-timed pulse (enable + pending timed disable) is judged as a pulse of its duration")
    return ("refused", "accepted", "software_timed_pulses", "software_pulses_ended", "holds", "watchdog_pending",
            "rules_checked", "over_limit_rules")


def replay(ctx, data):
    rp = data["replay"]
    if rp.get("search") == "history":
        d = make_hist(rp["index"])()
        d.boot()
        for c in rp["history"]:
            d.step(c)
            print("  step %r -> %s" % (c, d.observe()["hw"][-3:]))
        for sig, what in d.violations:
            print("  %s: %s" % (sig, what))
        return not d.violations
    print("  request:", rp)
    return False


if __name__ == "__main__":
    if len(sys.argv) > 1 and sys.argv[1] == "--write-config":
        write_machine_config()
        sys.exit(0)
    runner.main("C08", "model_checking", body, replay)
