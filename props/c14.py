"""C14 — Serial links: framing, integrity and command flow control.

Real OPP, PKONE and FAST (Neuron) platforms are booted on the harness loop over emulated serial ports
(mc/serial.py; the board emulators in c14_boards.py only answer the boot handshake).  After boot the
check owns every byte and every read boundary.

(A) decoders — for each protocol: streams of valid frames are delivered under every splitting with
    <= 2 (quick) / <= 3 (thorough) cuts, as single bytes and in uniform chunks; the decoded messages
    (observed at process_received_message / _dispatch_incoming_msg), the switch changes (observed at
    SwitchController.process_switch_by_num) and the final switch states must equal those of an
    independent reference decoder written from the protocol descriptions.  Then every single-byte
    substitution (small alphabet), deletion, insertion and truncation of the first report, followed by
    three valid reports, is delivered whole, as single bytes and cut at the damaged byte: every switch
    change must be justified by a well-formed (CRC-correct) frame contained in the bytes received, the
    reader must survive, and the final switch states must equal the last valid report.
(B) FAST command flow control — explicit-state BFS over command submissions (confirmed, unconfirmed,
    confirmed-with-retries, a real coil pulse), environment answers (confirmation delivered, unrelated
    message delivered, response lost) and time; oracle at the serial write seam: nothing is written
    while a confirmation is awaited, writes keep submission order, a lost response is re-sent after the
    timeout as often as configured and does not block later commands for ever.
"""
import itertools
import os
import pickle
import re
import sys

sys.path.insert(0, os.path.dirname(os.path.dirname(os.path.abspath(__file__))))
sys.path.insert(0, os.path.dirname(os.path.abspath(__file__)))

from mc import runner  # noqa: E402
from mc.boot import System  # noqa: E402
from mc.driver import MachineDriver, r6, simple_state  # noqa: E402
from mc.explore import bfs, pmap  # noqa: E402
from mc.serial import VPort  # noqa: E402
import c14_boards as B  # noqa: E402

EMU = {"opp": B.OppChain, "pkone": B.PkoneNano, "fast": B.FastNeuron}
PORT = {"opp": "com1", "pkone": "com3", "fast": "com3"}


# ----------------------------------------------------------------------------------------------
# rig: one booted platform with observation points
# ----------------------------------------------------------------------------------------------
class Rig:
    def __init__(self, kind):
        self.kind = kind
        self.emu = EMU[kind]()
        self.ports = {}

        def fac(url, loop):
            self.ports[url] = VPort(loop, url, self.emu.respond)
            return self.ports[url]
        self.sys = System("c14" + kind, platform=None, serial=fac)
        self.m = self.sys.machine
        self.loop = self.sys.loop
        self.port = self.ports[PORT[kind]]
        self.emu.auto = False
        self.plat = self.m.default_platform
        self.decoded = []           # messages handed to the platform's dispatcher
        self.events = []            # (index of decoded message or None, num, state)
        self._cur = None
        def monitor(change):
            # the monitor also fires for numbers no switch is configured for; only real switches have a state
            if change.name in self.m.switches:
                self.events.append((self._cur, str(change.num), 1 if change.state else 0))
        self.m.switch_controller.add_monitor(monitor)
        if kind == "fast":
            self.comm = self.plat.serial_connections["net"]
            cls, name = type(self.comm), "_dispatch_incoming_msg"
        else:
            self.comm = self.plat.opp_connection["com1"] if kind == "opp" else self.plat.controller_connection
            cls, name = type(self.plat), "process_received_message"
        orig = getattr(cls, name)
        orig = getattr(orig, "_c14_orig", orig)
        rig = self

        def spy(self_, *a):
            msg = a[-1]
            rig.decoded.append(msg if isinstance(msg, str) else bytes(msg))
            rig._cur = len(rig.decoded) - 1
            try:
                return orig(self_, *a)
            finally:
                rig._cur = None
        spy._c14_orig = orig
        setattr(cls, name, spy)         # class-level: the platform objects have __slots__
        self.port.take_written()
        self.sys.errors()

    def reader_alive(self):
        t = self.comm.read_task
        return t is not None and not t.done()

    def states(self):
        """{platform number: raw reported state} for the configured switches."""
        out = {}
        for sw in self.m.switches.values():
            num = str(sw.hw_switch.number)
            out[num] = sw.state if self.kind == "fast" else sw.hw_state
        return out

    def run(self, chunks):
        from mc.vloop import LivelockError
        err = None
        try:
            for c in chunks:
                self.port.feed(c)
        except LivelockError as e:
            err = "livelock: %s" % e
        errs = self.sys.errors()
        if errs and not err:
            e = errs[0]
            exc = e.get("exception")
            err = "%s: %s" % (type(exc).__name__ if exc else "loop", exc if exc else e.get("message"))
        return {"decoded": list(self.decoded), "events": list(self.events), "states": self.states(),
                "alive": self.reader_alive(), "error": err, "stopped": bool(self.m.stop_future.done())}


class Hang(BaseException):
    pass


TRIAL_SECONDS = 5      # CPU seconds; a trial takes milliseconds, a decoder that does not return within this is spinning


def isolated(fn):
    """Run fn() in a forked copy of this process (the booted rig stays pristine)."""
    r, w = os.pipe()
    pid = os.fork()
    if pid == 0:
        code = 0
        try:
            os.close(r)
            RIG.loop.activate()
            import signal

            def on_alarm(signum, frame):
                raise Hang(frame.f_code.co_filename.rsplit("/", 1)[-1], frame.f_code.co_name, frame.f_lineno)
            # CPU time of this process, not wall time: a loaded machine must not look like a spinning decoder
            signal.signal(signal.SIGVTALRM, on_alarm)
            signal.setitimer(signal.ITIMER_VIRTUAL, TRIAL_SECONDS)
            try:
                data = pickle.dumps(fn())
            except Hang as h:
                data = pickle.dumps({"hang": "%s:%s:%s" % h.args})
            signal.setitimer(signal.ITIMER_VIRTUAL, 0)
            with os.fdopen(w, "wb") as f:
                f.write(data)
        except BaseException as e:     # noqa
            try:
                with os.fdopen(w, "wb") as f:
                    f.write(pickle.dumps({"harness_error": repr(e)}))
            except Exception:       # noqa
                pass
            code = 3
        finally:
            os._exit(code)
    os.close(w)
    with os.fdopen(r, "rb") as f:
        data = f.read()
    os.waitpid(pid, 0)
    out = pickle.loads(data)
    if "hang" in out:
        return {"decoded": [], "events": [], "states": {}, "alive": False, "stopped": False,
                "error": "Hang: the decoder does not return (still in %s after %d s)" % (out["hang"], TRIAL_SECONDS)}
    if "harness_error" in out:
        raise RuntimeError("trial process failed: " + out["harness_error"])
    return out


RIG = None


def get_rig(kind):
    global RIG
    if RIG is None or RIG.kind != kind:
        RIG = Rig(kind)
    return RIG


# ----------------------------------------------------------------------------------------------
# protocols: frame builders, reference decoders, well-formedness
# ----------------------------------------------------------------------------------------------
OPP_SW = {"com1-0-0": (0x20, 0), "com1-0-1": (0x20, 1), "com1-0-5": (0x20, 5), "com1-0-9": (0x20, 9),
          "com1-0-31": (0x20, 31), "com1-1-0": (0x21, 0), "com1-1-8": (0x21, 8),
          "com1-1-32": (0x21, 32), "com1-1-40": (0x21, 40), "com1-1-95": (0x21, 95)}


def opp_i(addr, state):
    return B.opp_frame(addr, 0x08, state.to_bytes(4, "big"))


def opp_m(addr, state):
    return B.opp_frame(addr, 0x19, state.to_bytes(8, "big"))


ALL1 = 0xffffffff
ALL1M = 0xffffffffffffffff


def opp_poll(a, b, c):
    return [opp_i(0x20, a), opp_i(0x21, b), opp_m(0x21, c), b"\xff"]


def opp_expected_states(frames):
    """Raw state (1 = active, inputs are active low) of every configured switch after the given valid frames."""
    inp = {0x20: ALL1, 0x21: ALL1}
    mat = {0x21: ALL1M}
    for f in frames:
        if len(f) == 7:
            inp[f[0]] = int.from_bytes(f[2:6], "big")
        elif len(f) == 11:
            mat[f[0]] = int.from_bytes(f[2:10], "big")
    out = {}
    for num, (addr, idx) in OPP_SW.items():
        if idx < 32:
            out[num] = 0 if (inp[addr] >> idx) & 1 else 1
        else:
            out[num] = 0 if (mat[addr] >> (idx - 32)) & 1 else 1
    return out


def opp_wellformed_windows(stream):
    """Every CRC-correct input / matrix frame contained in the byte stream at any offset."""
    out = set()
    for i in range(len(stream)):
        if (stream[i] & 0xe0) != 0x20 or i + 1 >= len(stream):
            continue
        for cmd, n in ((0x08, 7), (0x19, 11)):
            if stream[i + 1] == cmd and i + n <= len(stream) and B.crc8(stream[i:i + n - 1]) == stream[i + n - 1]:
                out.add(bytes(stream[i:i + n]))
    return out


OPP_STREAMS = {
    # two polls, every card changes
    "two-polls": opp_poll(ALL1 ^ 0x1, ALL1 ^ 0x100, ALL1M ^ 0x1) + opp_poll(ALL1 ^ 0x80000202, ALL1 ^ 0x1, ALL1M ^ (1 << 63 | 1 << 8)),
    # data bytes that look like card addresses, commands and end-of-message
    "address-like-data": [opp_i(0x20, 0x20082119), b"\xff", opp_i(0x21, 0xff20ff08), opp_m(0x21, 0x2008210819202120), b"\xff",
                          opp_i(0x20, 0x00000000), b"\xff"],
    # no end-of-message bytes at all, repeated reports of one card
    "no-eom": [opp_i(0x20, ALL1 ^ 0x2), opp_i(0x20, ALL1), opp_i(0x20, ALL1 ^ 0x20), opp_m(0x21, ALL1M ^ 0x100)],
    # end-of-message runs
    "eom-runs": [b"\xff", b"\xff", opp_i(0x21, ALL1 ^ 0x101), b"\xff", b"\xff", b"\xff", opp_i(0x20, ALL1 ^ 0x80000000), b"\xff"],
}
OPP_TAIL = opp_poll(ALL1 ^ 0x2, ALL1, ALL1M) + opp_poll(ALL1 ^ 0x200, ALL1 ^ 0x100, ALL1M ^ 0x100) + \
    opp_poll(ALL1 ^ 0x80000001, ALL1 ^ 0x1, ALL1M ^ (1 << 63))
OPP_HEAD = opp_poll(ALL1 ^ 0x23, ALL1 ^ 0x101, ALL1M ^ 0x101)
OPP_ALPH = [0x00, 0x08, 0x19, 0x20, 0x21, 0x3f, 0xff]

# PKONE: PSW<board><nn><state>E
PK_SW = {"0-1": "001", "0-7": "007", "0-26": "026", "1-5": "105", "1-12": "112"}


def pk(board_nn, state):
    return ("PSW%s%dE" % (board_nn, state)).encode()


PK_STREAMS = {
    "changes": [pk("007", 1), pk("007", 0), pk("105", 1), b"PWDE", pk("026", 1), pk("112", 1), pk("001", 1), pk("105", 0)],
    "unknown-and-empty": [b"E", pk("009", 1), pk("007", 1), b"E", b"E", pk("320", 1), pk("026", 0), b"PWDE", pk("026", 1)],
}
PK_HEAD = [pk("007", 1), pk("105", 1), b"PWDE"]
PK_TAIL = [pk("001", 1), pk("007", 0), pk("026", 1), pk("105", 0), pk("112", 1)] * 1 + \
    [pk("001", 0), pk("007", 1), pk("026", 0), pk("105", 1), pk("112", 0)] + \
    [pk("001", 1), pk("007", 1), pk("026", 1), pk("105", 0), pk("112", 0)]
PK_ALPH = [ord("E"), ord("P"), ord("0"), ord("9"), ord("X"), ord("\r"), 0x80, 0xff]
PK_WELL = re.compile(rb"^PSW[0-7][0-9][0-9][01]$")

# FAST: -L:xx closed, /L:xx open (hex switch number)
FAST_SW = {"0": "00", "1": "01", "3": "03", "10": "0A", "31": "1F"}


def fl(nn, closed):
    return ("%sL:%s\r" % ("-" if closed else "/", nn)).encode()


FAST_STREAMS = {
    "changes": [fl("01", 1), fl("01", 0), fl("0A", 1), b"WD:P\r", fl("1F", 1), fl("03", 1), fl("00", 1), fl("0A", 0)],
    "unknown-and-empty": [b"\r", fl("02", 1), fl("01", 1), b"\r\r", b"XX:F\r", fl("1F", 1), fl("1F", 0), fl("7F", 1), b"!B:00\r", fl("00", 1)],
}
FAST_HEAD = [fl("01", 1), fl("0A", 1), b"WD:P\r"]
FAST_TAIL = [fl("00", 1), fl("01", 0), fl("03", 1), fl("0A", 0), fl("1F", 1)] + \
    [fl("00", 0), fl("01", 1), fl("03", 0), fl("0A", 1), fl("1F", 0)] + \
    [fl("00", 1), fl("01", 1), fl("03", 1), fl("0A", 0), fl("1F", 0)]
FAST_ALPH = [ord("\r"), ord(":"), ord("G"), ord("0"), ord("-"), ord("/"), ord("L"), 0x80, 0xff]
FAST_WELL = re.compile(rb"^[-/]L:[0-9A-Fa-f]+$")     # the protocol has no checksum; any hexadecimal number is a frame


def ref_decode(kind, frames):
    """(decoded messages, final raw states) a correct decoder produces for a list of valid frames."""
    if kind == "opp":
        return [f for f in frames if f != b"\xff"], opp_expected_states(frames)
    if kind == "pkone":
        dec, st = [], {k: 0 for k in PK_SW}
        for f in frames:
            body = f[:-1].decode()
            if not body or body == "PWD":
                continue
            dec.append(body)
            m = re.match(r"PSW(\d)(\d\d)([01])$", body)
            if m:
                num = "%d-%d" % (int(m.group(1)), int(m.group(2)))
                if num in st:
                    st[num] = int(m.group(3))
        return dec, st
    dec, st = [], {k: 0 for k in FAST_SW}
    st["3"] = 1     # s_03 is NC and reported open at boot: logically active
    for f in frames:
        for body in f.decode().split("\r"):
            if not body:
                continue
            dec.append(body)
            m = re.match(r"([-/])L:([0-9A-F]{2})$", body)
            if m:
                num = str(int(m.group(2), 16))
                if num in st:
                    st[num] = 1 if m.group(1) == "-" else 0
    return dec, st


def norm_num(kind, num):
    """Switch number as logged at the switch controller seam -> key used by the references."""
    if kind == "pkone":
        m = re.match(r"PKONESwitchNumber\(board_address_id=(\d+), switch_number=(\d+)\)", num)
        return "%s-%s" % (m.group(1), m.group(2)) if m else num
    return num


def wellformed(kind, stream):
    if kind == "opp":
        return opp_wellformed_windows(stream)
    sep = b"E" if kind == "pkone" else b"\r"
    rx = PK_WELL if kind == "pkone" else FAST_WELL
    return {p for p in stream.split(sep)[:-1] if rx.match(p)}


def msg_key(kind, msg):
    if kind == "opp":
        return bytes(msg)
    return msg.encode() if isinstance(msg, str) else bytes(msg)


# ----------------------------------------------------------------------------------------------
# splittings and corruptions
# ----------------------------------------------------------------------------------------------
def splittings(n, max_cuts):
    for k in range(0, max_cuts + 1):
        for cuts in itertools.combinations(range(1, n), k):
            yield cuts
    yield tuple(range(1, n))
    for size in (2, 3, 5, 7):
        yield tuple(range(size, n, size))


def cut(stream, cuts):
    out, last = [], 0
    for c in cuts:
        out.append(stream[last:c])
        last = c
    out.append(stream[last:])
    return [c for c in out if c]


def corruptions(head, alph):
    """(label, damaged head bytes, position of the damage)."""
    n = len(head)
    for p in range(n):
        for v in alph + [head[p] ^ 0x01, head[p] ^ 0x80]:
            if v != head[p]:
                yield ("sub@%d=%02x" % (p, v), head[:p] + bytes([v]) + head[p + 1:], p)
        yield ("del@%d" % p, head[:p] + head[p + 1:], p)
        yield ("trunc@%d" % p, head[:p], p)
    for p in range(n + 1):
        for v in alph:
            yield ("ins@%d=%02x" % (p, v), head[:p] + bytes([v]) + head[p:], p)
    # two damaged bytes next to each other and a burst
    for p in range(0, n - 1):
        for v in alph[:3]:
            yield ("sub2@%d=%02x" % (p, v), head[:p] + bytes([v, v]) + head[p + 2:], p)
    yield ("burst", bytes(alph) * 2, 0)


# ----------------------------------------------------------------------------------------------
# decoder jobs (run on pool workers; every trial in a forked copy of the booted rig)
# ----------------------------------------------------------------------------------------------
def job_valid(arg):
    kind, name, cut_list = arg
    rig = get_rig(kind)
    frames = {"opp": OPP_STREAMS, "pkone": PK_STREAMS, "fast": FAST_STREAMS}[kind][name]
    stream = b"".join(frames)
    want_dec, want_st = ref_decode(kind, frames)
    viol, n = [], 0
    for cuts in cut_list:
        chunks = cut(stream, cuts)
        res = isolated(lambda: rig.run(chunks))
        n += 1
        got_dec = [msg_key(kind, m) for m in res["decoded"]]
        exp_dec = [msg_key(kind, m) for m in want_dec]
        got_st = {norm_num(kind, k): v for k, v in res["states"].items()}
        tag = "%s/%s" % (kind, name)
        rp = {"part": "valid", "kind": kind, "stream": name, "cuts": list(cuts)}
        if res["error"] and res["error"].startswith("Hang"):
            viol.append(("decode:%s:hang" % kind, "%s cuts=%r: %s" % (tag, cuts, res["error"]), rp))
            return n, viol, 0, 0
        if res["error"] or not res["alive"]:
            viol.append(("decode:%s:reader-died" % kind, "%s cuts=%r: %s (reader alive=%s)" % (tag, cuts, res["error"], res["alive"]), rp))
        elif got_dec != exp_dec:
            viol.append(("decode:%s:messages" % kind,
                         "%s cuts=%r: decoded %r, the stream contains %r" % (tag, cuts, got_dec, exp_dec), rp))
        elif got_st != want_st:
            viol.append(("decode:%s:states" % kind, "%s cuts=%r: switch states %r, last reports say %r" % (tag, cuts, got_st, want_st), rp))
    return n, viol, 0, 0


def judge_corrupt(kind, label, stream, res, want_st, rp):
    out = []
    well = wellformed(kind, stream)
    tag = "%s %s" % (kind, label)
    for (idx, num, state) in res["events"]:
        if idx is None:
            out.append(("decode:%s:switch-change-outside-message" % kind, "%s: change %s=%s outside a message" % (tag, num, state), rp))
            continue
        m = msg_key(kind, res["decoded"][idx])
        if m not in well:
            out.append(("decode:%s:malformed-frame-changed-switch" % kind,
                        "%s: message %r is not a well-formed frame of the stream but changed switch %s to %s" %
                        (tag, m, norm_num(kind, num), state), rp))
            break
    if res["error"] or not res["alive"] or res["stopped"]:
        cls = (res["error"] or "reader ended").split(":")[0]
        out.append(("decode:%s:reader-died:%s" % (kind, cls), "%s: after the damaged bytes the reader is dead (%s); later valid frames are never "
                    "decoded" % (tag, res["error"]), rp))
        return out
    got_st = {norm_num(kind, k): v for k, v in res["states"].items()}
    if got_st != want_st:
        out.append(("decode:%s:no-resync" % kind, "%s: after three valid reports the switch states are %r, the last reports say %r" %
                    (tag, got_st, want_st), rp))
    return out


def job_corrupt(arg):
    kind, items = arg
    rig = get_rig(kind)
    head = b"".join({"opp": OPP_HEAD, "pkone": PK_HEAD, "fast": FAST_HEAD}[kind])
    tail_frames = {"opp": OPP_TAIL, "pkone": PK_TAIL, "fast": FAST_TAIL}[kind]
    tail = b"".join(tail_frames)
    _, want_st = ref_decode(kind, tail_frames)
    viol, n, outcomes = [], 0, set()
    for (label, damaged, pos) in items:
        stream = damaged + tail
        base = None
        for mode in ("whole", "bytes", "cut-at-damage"):
            if mode == "whole":
                chunks = [stream]
            elif mode == "bytes":
                chunks = [stream[i:i + 1] for i in range(len(stream))]
            else:
                chunks = cut(stream, tuple(sorted({c for c in (pos, pos + 1, len(damaged)) if 0 < c < len(stream)})))
            res = isolated(lambda: rig.run(chunks))
            n += 1
            rp = {"part": "corrupt", "kind": kind, "label": label, "mode": mode, "stream": stream.hex(), "pos": pos,
                  "head_len": len(damaged)}
            viol += judge_corrupt(kind, label + "/" + mode, stream, res, want_st, rp)
            if res["error"] and res["error"].startswith("Hang"):
                return n, viol, len(outcomes), 0
            obs = ([msg_key(kind, m) for m in res["decoded"]], res["events"], sorted(res["states"].items()), res["alive"])
            if base is None:
                base = obs
            elif obs != base:
                viol.append(("decode:%s:damaged-stream-depends-on-split" % kind,
                             "%s %s: delivered %s the decoder produced %r, delivered whole %r" % (kind, label, mode, obs[0], base[0]), rp))
            outcomes.add((len(res["decoded"]), res["alive"], tuple(sorted(res["states"].items()))))
    return n, viol, len(outcomes), 0


# ----------------------------------------------------------------------------------------------
# (B) FAST flow control
# ----------------------------------------------------------------------------------------------
class FlowDriver(MachineDriver):
    """Reference of the statement, kept at the serial write seam."""

    machine_name = "c14fast"
    time_horizon = 1.2
    max_cmds = 3

    def boot(self):
        self.rig = Rig("fast")
        self.sys = self.rig.sys
        self.m = self.rig.m
        self.loop = self.rig.loop
        self.comm = self.rig.comm
        self.port = self.rig.port
        self.t0 = self.loop.time()
        # the platform registers a processor per confirmation header; the test commands get theirs here
        for h in ("XA:", "XB:"):
            self.comm.message_processors[h] = lambda msg: None
        self.comm.message_processors["ZA:"] = lambda msg: self.comm.done_processing_msg_response()
        self.enq = []           # command texts in the order they entered send_queue
        put = self.comm.send_queue.put_nowait

        def spy_put(item):
            self.enq.append(item[0].rstrip(b"\r").decode("latin1"))
            return put(item)
        self.comm.send_queue.put_nowait = spy_put
        self.widx = 0
        self.sub = []           # submissions in order
        self.out = []           # written confirmed commands whose confirmation has not been delivered, oldest first
        self.tasks = []
        self.n = 0
        self.loop.drain()
        self.port.take_written()
        self.check_errors("boot")

    def after_fork(self):
        self.loop.activate()

    # ---- alphabet ----------------------------------------------------------------------------
    def ops(self):
        out = []
        if len(self.sub) < self.max_cmds:
            out += [["conf", "XA"], ["conf", "XB"], ["forget"], ["proc", 1], ["pulse"]]
        if any(not s["lost"] for s in self.out):
            out += [["resp"], ["lose"]]
        out.append(["other"])
        return out

    def _submit(self, cmd, hdr, path, retries=0):
        s = {"cmd": cmd, "hdr": hdr, "path": path, "retries": retries, "written": [], "confirmed": False, "lost": False,
             "t": self.loop.time()}
        self.sub.append(s)
        return s

    def do_op(self, op):
        import asyncio
        k = op[0]
        self.n += 1
        if k == "conf":
            cmd = "%s:%d" % (op[1], self.n)
            self._submit(cmd, op[1] + ":", "send_with_confirmation")
            self.comm.send_with_confirmation(cmd, op[1] + ":P")
        elif k == "forget":
            cmd = "YA:%d" % self.n
            self._submit(cmd, None, "send_and_forget")
            self.comm.send_and_forget(cmd)
        elif k == "proc":
            cmd = "ZA:%d" % self.n
            self._submit(cmd, "ZA:", "send_and_wait_for_response_processed", retries=op[1])
            t = asyncio.ensure_future(self.comm.send_and_wait_for_response_processed(cmd, "ZA:", timeout=1, max_retries=op[1]))
            self.tasks.append(t)
        elif k == "pulse":
            self._submit(None, None, "coil.pulse")
            self.m.coils["c_00"].pulse()
        elif k == "resp":
            s = next(x for x in self.out if not x["lost"])
            self.stat("confirmations_delivered")
            s["confirmed"] = True
            self.out.remove(s)
            for x in self.out:
                x["unrelated"] = True       # for the others this is a processed message that is not their confirmation
            self.port.feed((s["hdr"] + "P\r").encode())
        elif k == "lose":
            next(x for x in self.out if not x["lost"])["lost"] = True
            self.stat("responses_lost")
        elif k == "other":
            self.stat("unrelated_messages")
            for x in self.out:
                x["unrelated"] = True
            self.port.feed(b"-L:01\r" if self.n % 2 else b"/L:01\r")

    # ---- oracle ------------------------------------------------------------------------------
    def oracle(self, choice):
        now = self.loop.time()
        for (t, data) in self.port.take_written():
            for line in data.split(b"\r"):
                if line:
                    self._on_write(t, line.decode("latin1"))
        # a lost response is retried as configured
        for s in self.out:
            if s["lost"] and s["retries"] and len(s["written"]) <= s["retries"]:
                due = s["written"][0] + 1.0 * len(s["written"])
                if now > due + 0.05:
                    self.violate("flow:lost-response-not-retried",
                                 "%s (%s, timeout=1, max_retries=%d) was written at t=%s, its response was lost, and at t=%.2f it has "
                                 "not been sent again" % (s["cmd"], s["path"], s["retries"],
                                                          [round(x - self.t0, 2) for x in s["written"]], now - self.t0))
        # nothing may stay queued for ever
        stale = all(s["lost"] and now > s["written"][-1] + 3.0 for s in self.out)
        if stale:
            for x in self.sub:
                if x["cmd"] and not x["written"] and now > x["t"] + 3.0:
                    self.violate("flow:queue-blocked" if not self.out else "flow:lost-response-blocks-queue",
                                 "%s (%s) submitted at t=%.2f is still unwritten at t=%.2f although %s" %
                                 (x["cmd"], x["path"], x["t"] - self.t0, now - self.t0,
                                  "no confirmation is outstanding" if not self.out else
                                  "every outstanding response was lost more than 3 s ago"))
                    break

    def _on_write(self, t, line):
        self.stat("writes")
        if line.startswith("WD:"):
            kind = "watchdog"
            s = None
        else:
            s = next((x for x in self.sub if x["cmd"] == line), None)
            kind = s["path"] if s else "coil.pulse"
        blockers = [a for a in self.out if a is not s]
        if blockers:
            a = blockers[0]
            self.stat("unconfirmed_overtakes")
            sig = "flow:write-while-awaiting:%s-after-%s" % (kind, a["path"])
            if kind == a["path"] == "send_and_wait_for_response_processed":
                # both went through the no_response_waiting gate: was it opened by a message that is not the confirmation?
                sig += "/gate-opened-by-unrelated-message" if a.get("unrelated") else "/gate-closed"
            self.violate(sig,
                         "%r (%s) was written at t=%.3f while the confirmation %r of %r (written t=%.3f) has not arrived" %
                         (line, kind, t - self.t0, a["hdr"], a["cmd"], a["written"][-1] - self.t0))
        # order: the port sees the commands in the order in which they were queued
        if self.widx >= len(self.enq) or self.enq[self.widx] != line:
            self.violate("flow:order", "write #%d is %r, the queue order is %r" % (self.widx, line, self.enq))
        self.widx += 1
        if s is not None:
            if s["written"] and not s["retries"]:
                self.violate("flow:duplicate-write", "%r written twice" % line)
            if s["written"] and s["retries"]:
                if len(s["written"]) > s["retries"]:
                    self.violate("flow:too-many-retries", "%r written %d times with max_retries=%d" %
                                 (line, len(s["written"]) + 1, s["retries"]))
                if t < s["written"][-1] + 1.0 - 1e-6:
                    self.violate("flow:retry-too-early", "%r re-sent at t=%.3f, %.3f s after the previous attempt (timeout 1 s)" %
                                 (line, t - self.t0, t - s["written"][-1]))
                if s["confirmed"]:
                    self.violate("flow:retry-after-confirmation", "%r re-sent after its confirmation had arrived" % line)
                self.stat("retries_written")
            s["written"].append(t)
            if s["hdr"] and not s["confirmed"] and s not in self.out:
                self.out.append(s)
                self.stat("confirmed_commands_written")

    def fingerprint(self):
        now = self.loop.time()
        c = self.comm
        return (tuple((x["cmd"] and x["cmd"][:2], x["path"], len(x["written"]), x["confirmed"], x["lost"], x.get("unrelated", False),
                       tuple(r6(w - now) for w in x["written"]), r6(x["t"] - now)) for x in self.sub),
                tuple(self.sub.index(s) for s in self.out),
                simple_state(c, exclude=("send_queue", "tasks", "message_processors", "reader", "writer", "read_task", "write_task",
                                         "io_loop", "switches", "drivers"), now=now),
                c.send_queue.qsize(), self.task_fp(), self.rel_timers(), self.n % 2)

    def observe(self):
        return {"submitted": [(x["cmd"], x["path"], [r6(w - self.t0) for w in x["written"]]) for x in self.sub],
                "awaiting": [s["cmd"] for s in self.out]}


# ----------------------------------------------------------------------------------------------
def chunked(lst, n):
    for i in range(0, len(lst), n):
        yield lst[i:i + n]


def body(ctx):
    quick = ctx.tier == "quick"
    max_cuts = 2 if quick else 3
    jobs = []
    for kind, streams in (("opp", OPP_STREAMS), ("pkone", PK_STREAMS), ("fast", FAST_STREAMS)):
        for name, frames in streams.items():
            n = len(b"".join(frames))
            for part in chunked(list(splittings(n, max_cuts)), 60):
                jobs.append(("valid", (kind, name, part)))
    for kind, head, alph in (("opp", OPP_HEAD, OPP_ALPH), ("pkone", PK_HEAD, PK_ALPH), ("fast", FAST_HEAD, FAST_ALPH)):
        for part in chunked(list(corruptions(b"".join(head), alph)), 20):
            jobs.append(("corrupt", (kind, part)))
    jobs.sort(key=lambda j: j[1][0])        # a worker keeps its booted rig while the protocol stays the same
    trials = {"valid": 0, "corrupt": 0}
    outcomes = 0
    seen = {}
    for (jk, n, viol, nout, _) in pmap(run_job, jobs, chunksize=1):
        trials[jk] += n
        outcomes += nout
        for sig, what, rp in viol:
            if sig not in seen:
                seen[sig] = (what, rp)
    for sig, (what, rp) in seen.items():
        ctx.violation(sig, what, rp)
    ctx.guard("split_trials", trials["valid"])
    ctx.guard("corruption_trials", trials["corrupt"])
    ctx.guard("distinct_corruption_outcomes", outcomes)

    known = "|".join("(?:%s)" % e["signature"] for e in ctx.known if e.get("status") == "known")
    res = bfs(FlowDriver, 5 if quick else 7, observe=True, continue_past=known or None)
    for s in res.samples[:3]:
        ctx.sample(s)
    for sig, (what, hist) in res.violations.items():
        ctx.violation(sig, what, {"part": "flow", "history": hist})
    for k, v in res.stats.items():
        ctx.guard(k, v)
    ctx.add(states=res.states, transitions=res.transitions, traces_validated_against_impl=res.transitions + trials["valid"] + trials["corrupt"],
            levels=res.levels, split_trials=trials["valid"], corruption_trials=trials["corrupt"], exhaustive=True)
    ctx.assume("OPP: two gen2 cards (inputs + switch matrix); PKONE: two extension boards; FAST: Neuron with one I/O board",
               "splittings: every choice of <= %d cut points, single bytes, uniform chunks of 2/3/5/7 bytes" % max_cuts,
               "corruptions of the first report: substitutions from a per-protocol alphabet plus bit flips, deletions, truncations, "
               "insertions, double substitutions, one burst; three valid reports follow",
               "reads larger than 128 bytes are split by MPF's own read(128)",
               "flow control: at most %d submitted commands per history, BFS depth %d" % (FlowDriver.max_cmds, 5 if quick else 7))
    return ("split_trials", "corruption_trials", "distinct_corruption_outcomes", "writes", "confirmed_commands_written",
            "confirmations_delivered", "responses_lost", "unrelated_messages")


def run_job(job):
    jk, arg = job
    try:
        get_rig(arg[0])
    except Exception as e:      # noqa - the platform cannot get through a handshake made of valid frames only
        return jk, 0, [("decode:%s:boot-handshake" % arg[0], "the %s platform does not boot on a valid handshake: %r" % (arg[0], e),
                        {"part": "boot", "kind": arg[0]})], 0, 0
    n, viol, nout, x = (job_valid if jk == "valid" else job_corrupt)(arg)
    return jk, n, viol, nout, x


def replay(ctx, data):
    rp = data["replay"]
    if rp.get("part") == "boot":
        try:
            get_rig(rp["kind"])
            return True
        except Exception as e:      # noqa
            print("  boot failed: %r" % e)
            return False
    if rp.get("part") == "flow":
        d = FlowDriver()
        d.boot()
        for c in rp["history"]:
            d.step(c)
            print("  step %r -> %s" % (c, d.observe()))
        for sig, what in d.violations:
            print("  %s: %s" % (sig, what))
        return not d.violations
    kind = rp["kind"]
    rig = get_rig(kind)
    if rp["part"] == "valid":
        frames = {"opp": OPP_STREAMS, "pkone": PK_STREAMS, "fast": FAST_STREAMS}[kind][rp["stream"]]
        n, viol, _, _ = job_valid((kind, rp["stream"], [tuple(rp["cuts"])]))
    else:
        stream = bytes.fromhex(rp["stream"])
        n, viol, _, _ = job_corrupt((kind, [(rp["label"], stream[:rp["head_len"]], rp["pos"])]))
    for sig, what, _ in viol:
        print("  %s: %s" % (sig, what))
    return not viol


if __name__ == "__main__":
    runner.main("C14", "model_checking", body, replay)
