"""C13 — Delays and periodic timers fire exactly when promised, or never.

Three explicit-state searches (BFS by replay on a freshly booted machine, fork snapshots) over
 (a) DelayManager operations on the machine-wide and a mode-owned manager,
 (b) clock.schedule_interval periodic tasks,
 (c) the timer device driven through its control events,
each with time choices T (next timer), T+ (next timer, woken late) and H (stop before it), judged
against a boring reference model after every step.
"""
import math
import os
import sys

sys.path.insert(0, os.path.dirname(os.path.dirname(os.path.abspath(__file__))))

from mc import runner  # noqa: E402
from mc.driver import MachineDriver, r6, simple_state  # noqa: E402
from mc.explore import bfs  # noqa: E402

EPS = 1e-6


# ================================================================================================
# (a) delays
# ================================================================================================
class DelayDriver(MachineDriver):
    machine_name = "c13"
    offer_late = True
    offer_hold = True
    OPS = [("add", "a", 100), ("add", "a", 200), ("add", "b", 100), ("add", "c", 100), ("add", "c", 200),
           ("add_if", "a", 200), ("reset", "a", 100), ("remove", "a"), ("remove", "b"), ("clear",),
           ("run_now", "a"), ("run_now", "b"), ("madd", "m", 100), ("madd", "m", 200),
           ("mode_stop",), ("mode_start",), ("hold_stopping",), ("release",)]

    def setup(self):
        self.held = None            # queue of mode_m1_stopping held by a waiting handler
        self.hold_next = False
        self.m.events.add_handler("mode_m1_stopping", self._on_stopping)
        self.dm = self.m.delay
        self.mode = self.m.modes["m1"]
        self.mode.start()
        self.loop.drain()
        self.cblog = []             # (time, name, kwargs)
        self.ref = {}               # name -> (deadline, tag, owner)
        self.seen = 0
        self.pending_rm_a = False

    def _on_stopping(self, queue=None, **kwargs):
        if self.hold_next and queue is not None:
            self.hold_next = False
            queue.wait()
            self.held = queue

    # callbacks with different flavours
    def _cb(self, name):
        def cb(**kwargs):
            self.cblog.append((self.loop.time(), name, dict(kwargs)))
            if name == "b":
                self.dm.add(ms=100, callback=self._cb("b"), name="b", tag=3)
            elif name == "c":
                self.dm.remove("a")
                self.m.events.post("c13_from_delay")
        return cb

    def ops(self):
        return [list(o) for o in self.OPS]

    def do_op(self, op):
        op = tuple(op)
        now = self.loop.time()
        kind = op[0]
        if kind in ("add", "add_if", "reset"):
            _, name, ms = op
            tag = 1 if ms == 100 else 2
            if kind == "add":
                self.dm.add(ms=ms, callback=self._cb(name), name=name, tag=tag)
                self.ref[name] = (now + ms / 1000.0, tag, "machine")
            elif kind == "add_if":
                self.dm.add_if_doesnt_exist(ms=ms, callback=self._cb(name), name=name, tag=tag)
                if name not in self.ref:
                    self.ref[name] = (now + ms / 1000.0, tag, "machine")
            else:
                self.dm.reset(ms=ms, callback=self._cb(name), name=name, tag=tag)
                self.ref[name] = (now + ms / 1000.0, tag, "machine")
        elif kind == "remove":
            self.dm.remove(op[1])
            self.ref.pop(op[1], None)
        elif kind == "clear":
            self.dm.clear()
            for n in [n for n, v in self.ref.items() if v[2] == "machine"]:
                del self.ref[n]
        elif kind == "run_now":
            name = op[1]
            self.stat("run_now_pending", 1 if name in self.ref else 0)
            self.dm.run_now(name)
            if name in self.ref:
                _, tag, _ = self.ref.pop(name)
                self.expect_now = [(name, tag)]
                self._apply_callback_effects(name, now)
        elif kind == "madd":
            _, name, ms = op
            # (what a delay added while the mode is being stopped does before the stop completes is not judged)
            if self.mode.active and not self.mode.stopping:
                tag = 1 if ms == 100 else 2
                self.mode.delay.add(ms=ms, callback=self._cb(name), name=name, tag=tag)
                self.ref[name] = (now + ms / 1000.0, tag, "mode")
        elif kind == "mode_stop":
            if self.mode.active and not self.mode.stopping:
                self.mode.stop()
                self.stat("mode_stop_with_delay", 1 if "m" in self.ref else 0)
                self.ref.pop("m", None)
        elif kind == "mode_start":
            if not self.mode.active:
                self.mode.start()
        elif kind == "hold_stopping":
            # the next stop of the mode is held in its mode_m1_stopping queue (as a slide or show would)
            self.hold_next = True
        elif kind == "release":
            if self.held is not None:
                q, self.held = self.held, None
                q.clear()
                self.stat("stops_released")

    def _apply_callback_effects(self, name, now):
        if name == "b":
            self.ref["b"] = (now + 0.1, 3, "machine")
        elif name == "c":
            self.ref.pop("a", None)

    def oracle(self, choice):
        now = self.loop.time()
        new = self.cblog[self.seen:]
        self.seen = len(self.cblog)
        sig_op = choice if isinstance(choice, str) else choice[0]
        if choice in ("T", "T+", "H"):
            # everything whose deadline has passed must have fired exactly once, in deadline order;
            # coincident deadlines may fire in any order (so "c removes a" at the same instant is free)
            fired = []
            guard = 0
            while True:
                due = sorted((v[0], n) for n, v in self.ref.items() if v[0] <= now + EPS)
                if not due:
                    break
                guard += 1
                if guard > 50:
                    break
                d0 = due[0][0]
                same = [n for d, n in due if abs(d - d0) < EPS]
                if len(same) > 1:
                    self.stat("coincident_deadlines")
                    # follow the order the implementation took (any order is allowed)
                    obs_order = [e[1] for e in new[len(fired):] if e[1] in same]
                    pick = obs_order[0] if obs_order else same[0]
                else:
                    pick = same[0]
                _, tag, _ = self.ref.pop(pick)
                fired.append((pick, tag))
                self._apply_callback_effects(pick, now)
            got = [(e[1], e[2].get("tag")) for e in new]
            if got != fired:
                self.violate("delay-fire:%s" % sig_op,
                             "at t=%.3f callbacks %r ran, reference expects %r" % (now - self.t0, got, fired))
            if fired:
                self.stat("fired", len(fired))
            for e in new:
                if set(e[2]) != {"tag"}:
                    self.violate("delay-kwargs", "callback %s got kwargs %r" % (e[1], e[2]))
        else:
            exp = getattr(self, "expect_now", [])
            self.expect_now = []
            got = [(e[1], e[2].get("tag")) for e in new]
            if got != exp:
                if sig_op == "run_now" and [g[0] for g in got] == [x[0] for x in exp]:
                    self.violate("run_now-kwargs", "run_now(%s) ran the callback with kwargs %r instead of the "
                                 "stored %r" % (choice[1], new[0][2], {"tag": exp[0][1]}))
                else:
                    self.violate("delay-op:%s" % sig_op, "after %r callbacks %r ran, expected %r" % (choice, got, exp))
        if self.ref:
            self.expect_timer_by(min(v[0] for v in self.ref.values()), "delay")
        for n in ("a", "b", "c"):
            if self.dm.check(n) != (n in self.ref):
                self.violate("check:%s" % sig_op, "check(%r) is %r but the delay is %s" %
                             (n, self.dm.check(n), "pending" if n in self.ref else "not pending"))
        if self.mode.delay.check("m") != ("m" in self.ref):
            self.violate("check-mode:%s" % sig_op, "mode delay check('m') is %r, reference %r" %
                         (self.mode.delay.check("m"), "m" in self.ref))

    def fingerprint(self):
        now = self.loop.time()
        return (tuple(sorted((n, r6(v[0] - now), v[1]) for n, v in self.ref.items())), self.mode.active,
                self.rel_timers(), self.hold_next, self.held is not None, getattr(self.mode, "stopping", None))

    def observe(self):
        return {"callbacks": [(r6(t - self.t0), n, k) for t, n, k in self.cblog]}


# ================================================================================================
# (b) periodic tasks
# ================================================================================================
class PeriodicDriver(MachineDriver):
    machine_name = "null"
    offer_late = True
    offer_hold = True
    late = 0.3          # later than one 0.25 interval: two ticks are due at the late wake-up

    def setup(self):
        self.tasks = []     # dict(start, interval, task, ticks, cancelled_at, ticks_at_cancel)

    def ops(self):
        out = []
        if len(self.tasks) < 2:
            out += [["start", 0.25], ["start", 0.5]]
        for i, t in enumerate(self.tasks):
            if t["cancel"] is None:
                out.append(["cancel", i])
        return out

    def do_op(self, op):
        if op[0] == "start":
            rec = {"start": self.loop.time(), "interval": op[1], "ticks": 0, "cancel": None, "at_cancel": 0}

            def cb(rec=rec):
                rec["ticks"] += 1
            rec["task"] = self.m.clock.schedule_interval(cb, op[1])
            self.tasks.append(rec)
        else:
            t = self.tasks[op[1]]
            self.m.clock.unschedule(t["task"])
            t["cancel"] = self.loop.time()
            t["at_cancel"] = t["ticks"]

    def oracle(self, choice):
        now = self.loop.time()
        for i, t in enumerate(self.tasks):
            if t["cancel"] is None:
                exp = int(math.floor((now - t["start"]) / t["interval"] + 1e-9))
                if exp > 0:
                    self.stat("ticks_checked")
                if choice == "T+":
                    self.stat("late_wakeups")
                if t["ticks"] != exp:
                    self.violate("periodic-drift", "task %d (interval %s, started %.3f): %d ticks at t=%.3f, "
                                 "expected %d" % (i, t["interval"], t["start"] - self.t0, t["ticks"], now - self.t0, exp))
            elif t["ticks"] != t["at_cancel"]:
                self.violate("periodic-after-cancel", "task %d ticked after cancel" % i)

    def fingerprint(self):
        now = self.loop.time()
        def phase(x, interval):
            ph = r6(math.fmod(x, interval))
            return 0.0 if abs(ph - interval) < 1e-5 or abs(ph) < 1e-5 else ph
        return (tuple((t["interval"], phase(now - t["start"], t["interval"]), t["cancel"] is None,
                       t["ticks"] - int(math.floor((now - t["start"]) / t["interval"] + 1e-9)) if t["cancel"] is None else 0)
                      for t in self.tasks), self.rel_timers())

    def observe(self):
        return {"ticks": [t["ticks"] for t in self.tasks], "t": r6(self.loop.time() - self.t0)}


# ================================================================================================
# (c) timer device
# ================================================================================================
class RefTimer:
    def __init__(self, start, end, direction, interval, restart):
        self.start_value, self.end, self.direction, self.restart_on_complete = start, end, direction, restart
        self.ticks = start
        self.interval = interval
        self.running = False
        self.anchor = None          # time from which boundaries are counted (None = phase not pinned)
        self.op_time = None         # time of the op that un-pinned the phase
        self.pause_until = None
        self.completes = 0
        self.restarts = 0

    def key(self, now):
        return (self.ticks, self.running, self.interval,
                None if self.anchor is None else r6(now - self.anchor),
                None if self.op_time is None else r6(now - self.op_time),
                None if self.pause_until is None else r6(self.pause_until - now))

    def done(self):
        if self.direction == "up":
            return self.end is not None and self.ticks >= self.end
        return self.ticks <= self.end

    def complete(self, now):
        self.completes += 1
        self.running = False
        self.pause_until = None
        if self.restart_on_complete:
            self.restarts += 1
            self.restart(now)

    def start(self, now):
        if self.running:
            return
        if self.done():
            self.complete(now)
            return
        self.running = True
        self.pause_until = None
        self.anchor = now
        self.op_time = None

    def unpin(self, now):
        self.anchor = None
        self.op_time = now

    def jump(self, v, now):
        self.ticks = v
        self.unpin(now)
        if self.done():
            self.complete(now)

    def restart(self, now):
        self.jump(self.start_value, now)
        if not self.running:
            self.start(now)

    def op(self, name, now):
        if name == "start":
            self.start(now)
        elif name == "stop":
            self.running = False
            self.pause_until = None
        elif name == "pause":
            self.running = False
            self.pause_until = now + 0.375
        elif name == "add":
            self.ticks += 1
            if self.done():
                self.complete(now)
        elif name == "subtract":
            self.ticks -= 1
            if self.done():
                self.complete(now)
        elif name == "jump":
            self.jump(2, now)
        elif name == "reset":
            self.jump(self.start_value, now)
        elif name == "restart":
            self.restart(now)
        elif name == "set_tick_interval":
            self.interval = 0.5
            self.unpin(now)
        elif name == "change_tick_interval":
            self.interval *= 2
            self.unpin(now)


class TimerDriver(MachineDriver):
    machine_name = "c13"
    offer_late = True
    offer_hold = True
    late = 0.05
    timer = "tu"
    SPEC = {"tu": (0, 3, "up", 0.25, False), "td": (2, 0, "down", 0.5, False), "tr": (0, 2, "up", 0.25, True)}
    OPS = ["start", "stop", "pause", "add", "subtract", "jump", "set_tick_interval", "change_tick_interval",
           "restart", "reset", "mode_stop"]

    def setup(self):
        self.mode = self.m.modes["m1"]
        self.mode.start()
        self.loop.drain()
        self.dev = self.m.timers[self.timer]
        self.ref = RefTimer(*self.SPEC[self.timer])
        self.evlog = []
        for ev in ("tick", "complete"):
            self.m.events.add_handler("timer_%s_%s" % (self.timer, ev), self._on, _ev=ev)
        self.seen = 0
        self.comp_seen = 0
        self.stopped = False

    def _on(self, _ev, **kwargs):
        self.evlog.append((self.loop.time(), _ev, kwargs.get("ticks")))

    def ops(self):
        return [] if self.stopped else list(self.OPS)

    def do_op(self, op):
        now = self.loop.time()
        self.pre_deadline = None
        if op == "mode_stop":
            self.mode.stop()
            self.loop.drain()
            self.stopped = True
            self.ref.running = False
            self.ref.pause_until = None
            return
        self.m.events.post("%s_%s" % (self.timer, op))
        self.ref.op(op, now)

    def step(self, choice):
        # remember the deadline we are about to fire (the harness knows it; needed to pin an unknown phase)
        self.fired_deadline = self.loop.next_deadline() if choice in ("T", "T+") else None
        self.ticks_before = self.dev.ticks if self.sys else None
        super().step(choice)

    def _advance_ref(self, now, new_ticks_changed):
        """Advance the reference over time up to now (one wake-up)."""
        r = self.ref
        boundaries = 0
        resumed = 0
        guard = 0
        while guard < 20:
            guard += 1
            if r.pause_until is not None and r.pause_until <= now + EPS:
                r.pause_until = None
                resumed += 1
                r.start(now)          # the resume runs when the loop wakes up
                continue
            if not r.running:
                break
            if r.anchor is None:
                # phase not pinned by the statement: accept the first tick at any deadline within one interval
                d = self.fired_deadline
                if new_ticks_changed and d is not None and r.op_time - EPS < d <= r.op_time + r.interval + EPS:
                    r.anchor = d - r.interval
                    r.op_time = None
                    continue
                if now > r.op_time + r.interval + EPS:
                    self.violate("timer-no-tick", "running timer did not tick within one interval (%.3fs) after "
                                 "its phase was reset" % r.interval)
                break
            nxt = r.anchor + r.interval
            if nxt <= now + EPS:
                boundaries += 1
                r.anchor = nxt
                r.ticks += 1 if r.direction == "up" else -1
                if r.done():
                    r.complete(now)
                continue
            break
        return boundaries, resumed

    def oracle(self, choice):
        now = self.loop.time()
        new = self.evlog[self.seen:]
        self.seen = len(self.evlog)
        r = self.ref
        if choice in ("T", "T+", "H"):
            c0, rs0 = r.completes, r.restarts
            changed = self.dev.ticks != self.ticks_before or any(e[1] == "complete" for e in new)
            nb, nresume = self._advance_ref(now, changed)
            ncomp = r.completes - c0
            nrest = r.restarts - rs0
            ticks_ev = sum(1 for e in new if e[1] == "tick")
            lo = nb - ncomp
            hi = lo + nrest + nresume       # start()/restart() announce the current value with a tick event
            if nb:
                self.stat("boundaries", nb)
            if choice == "T+" and nb:
                self.stat("late_ticks")
            if not lo <= ticks_ev <= hi:
                self.violate("timer-ticks", "%d tick event(s) at t=%.3f for %d interval boundaries (%d completed, "
                             "%d resumed)" % (ticks_ev, now - self.t0, nb, ncomp, nresume))
        ncomp_ev = sum(1 for e in new if e[1] == "complete")
        exp_comp = r.completes - self.comp_seen
        self.comp_seen = r.completes
        if ncomp_ev != exp_comp:
            self.violate("timer-complete", "%d complete event(s), reference expects %d (ticks=%s end=%s)" %
                         (ncomp_ev, exp_comp, self.dev.ticks, r.end))
        if exp_comp:
            self.stat("completions", exp_comp)
        if self.dev.ticks != r.ticks or bool(self.dev.running) != r.running:
            self.violate("timer-state", "device ticks=%s running=%s, reference ticks=%s running=%s" %
                         (self.dev.ticks, self.dev.running, r.ticks, r.running))

    def fingerprint(self):
        return (self.ref.key(self.loop.time()), self.stopped, self.rel_timers(),
                simple_state(self.dev, exclude=("timer", "delay", "event_keys"), now=self.loop.time()))

    def observe(self):
        return {"events": [(r6(t - self.t0), e, k) for t, e, k in self.evlog], "ticks": self.dev.ticks}


def make_timer_driver(name):
    class D(TimerDriver):
        timer = name
    D.__name__ = "TimerDriver_" + name
    return D


# ================================================================================================
def body(ctx):
    quick = ctx.tier == "quick"
    plans = [("delays", DelayDriver, 5 if quick else 7),
             ("periodic", PeriodicDriver, 7 if quick else 10),
             ("timer_tu", make_timer_driver("tu"), 5 if quick else 6),
             ("timer_td", make_timer_driver("td"), 4 if quick else 6),
             ("timer_tr", make_timer_driver("tr"), 4 if quick else 6)]
    states = trans = 0
    detail = {}
    for name, drv, depth in plans:
        res = bfs(drv, depth, observe=True)
        states += res.states
        trans += res.transitions
        detail[name] = {"depth": depth, "states": res.states, "transitions": res.transitions,
                        "frontier_emptied": res.frontier_emptied, "levels": res.levels, "stats": res.stats}
        for s in res.samples[:2]:
            ctx.sample({"search": name, **s})
        for sig, (what, hist) in res.violations.items():
            ctx.violation("%s:%s" % (name.split("_")[0], sig), what, {"search": name, "history": hist})
        for k, v in res.stats.items():
            ctx.guard(k, v)
    ctx.add(states=states, transitions=trans, traces_validated_against_impl=trans, searches=detail,
            exhaustive=True)
    ctx.assume("time is explored through representative points: at each deadline (on time / woken late) and the "
               "midpoint before it; durations from {100,200} ms, intervals {0.25,0.5} s",
               "BFS depth bounds as listed per search; every transition is executed on the real DelayManager / "
               "PeriodicTask / Timer device of a booted machine")
    return ("fired", "coincident_deadlines", "run_now_pending", "mode_stop_with_delay", "ticks_checked",
            "late_wakeups", "boundaries", "late_ticks", "completions")


def replay(ctx, data):
    rp = data["replay"]
    name = rp["search"]
    drv = {"delays": DelayDriver, "periodic": PeriodicDriver}.get(name) or make_timer_driver(name.split("_")[1])
    d = drv()
    d.boot()
    for c in rp["history"]:
        d.step(c)
        print("  step %r -> %s" % (c, d.observe()))
    for sig, what in d.violations:
        print("  %s: %s" % (sig, what))
    return not d.violations


if __name__ == "__main__":
    runner.main("C13", "model_checking", body, replay)
