"""C09 — Light hardware output equals the priority stack's colour.

Explicit-state BFS over colour / off / remove / clear commands with priorities, keys and fade times and
time choices, per light kind (single channel, RGB, RGBW) and back end (virtual = stores the fade,
software fade on a coil through the drivers platform, batched through the real PlatformBatchLightSystem
with a harness update callback whose completion is an environment choice); reference stack from the
statement; logical colour and the last brightness commanded to every hardware channel are compared
at rest, interpolation is checked for fades started from rest.
"""
import asyncio
import os
import sys

sys.path.insert(0, os.path.dirname(os.path.dirname(os.path.abspath(__file__))))

from mc import runner  # noqa: E402
from mc.driver import MachineDriver, r6  # noqa: E402
from mc.explore import bfs  # noqa: E402

import mpf.platforms.virtual as virtual_mod  # noqa: E402
from mpf.core.platform_batch_light_system import PlatformBatchLight, PlatformBatchLightSystem  # noqa: E402
from mpf.core.rgb_color import RGBColor  # noqa: E402

EPS = 1e-6
COLORS = {"red": (255, 0, 0), "blue": (0, 0, 255), "white": (255, 255, 255), "off": (0, 0, 0), "gray": (128, 128, 128)}
KEYPRIO = {"a": 0, "b": 1, "c": 1}


class BatchLight(PlatformBatchLight):
    """A batched light channel of the harness platform (what FAST / OPP / PKONE platforms subclass)."""

    __slots__ = ["index"]

    def __init__(self, number, light_system, index):
        super().__init__(number, light_system)
        self.index = index

    def get_max_fade_ms(self):
        return 100

    def get_board_name(self):
        return "harness-batch"

    def is_successor_of(self, other):
        return self.index == other.index + 1

    def get_successor_number(self):
        return self.index + 1

    def __lt__(self, other):
        return self.index < other.index

    def __eq__(self, other):
        return self is other

    def __hash__(self):
        return id(self)


_BATCH = {"system": None, "count": 0}
_orig_configure_light = virtual_mod.VirtualHardwarePlatform.configure_light


def _configure_light(self, number, subtype, config, platform_settings):
    if str(number).startswith("b"):
        _BATCH["count"] += 1
        return BatchLight("batch-%s" % number, _BATCH["system"], _BATCH["count"])
    return _orig_configure_light(self, number, subtype, config, platform_settings)


virtual_mod.VirtualHardwarePlatform.configure_light = _configure_light


class LazySystem:
    """mark_dirty before the real system exists (lights are configured during boot)."""

    def __init__(self):
        self.real = None

    def mark_dirty(self, light):
        if self.real:
            self.real.mark_dirty(light)


class LightDriver(MachineDriver):
    machine_name = "c09"
    offer_hold = True
    light = "l_rgb"
    backend = "virtual"        # virtual | soft | batch
    fades = (0, 300)

    def early_init(self, machine):
        _BATCH["system"] = LazySystem()
        _BATCH["count"] = 0

    def setup(self):
        self.dev = self.m.lights[self.light]
        self.kind = "".join(sorted(c[0] for c in self.dev.hw_drivers))
        self.cmds = {}              # hw channel -> last commanded brightness
        self.io_wait = []           # pending harness I/O futures (batch back end)
        self.io_payload = []        # what those pending updates carry
        self.batches = 0
        if self.backend == "batch":
            self.system = PlatformBatchLightSystem(self.m.clock, self._update_callback, 50, 8)
            _BATCH["system"].real = self.system
            for l in (self.m.lights["l_b1"], self.m.lights["l_b2"]):
                for ds in l.hw_drivers.values():
                    for d in ds:
                        d.light_system = self.system
            self.system.start()
            self.loop.drain()
        elif self.backend == "soft":
            coil = self.m.coils["c_lamp"]
            hw = coil.hw_driver
            oe, od = hw.enable, hw.disable

            def enable(pulse, hold, _o=oe):
                self.cmds["white"] = hold.power
                return _o(pulse, hold)

            def disable(_o=od):
                self.cmds["white"] = 0.0
                return _o()
            hw.enable, hw.disable = enable, disable
        # reference stack: key -> dict(prio, color, seq)
        self.ref = {}
        self.seq = 0
        self.fade_probe = None      # (t0, fade_s, start, dest) for a fade started from rest
        self.other = self.m.lights["l_b2"] if self.backend == "batch" else None
        self.ref_other = None
        self.fadeouts = []          # reference: bounding boxes of entries that are fading out
        self.until = {}             # reference: key -> end of the fade of its current command
        self.rm_until = {}          # reference: key -> end of a fading removal

    async def _update_callback(self, batch):
        self.batches += 1
        if self.hold_io:
            fut = asyncio.Future()
            self.io_wait.append(fut)
            payload = tuple((light.number, round(brightness, 4), fade_ms) for light, brightness, fade_ms in batch)
            self.io_payload.append(payload)
            await fut
            self.io_payload.remove(payload)
        for light, brightness, fade_ms in batch:
            self.cmds[light.number] = brightness

    hold_io = True      # the platform's update callback completes when the environment says so

    @property
    def busy_until(self):
        """Reference: when the last fade that is still part of the stack ends (a command for the same key replaces it)."""
        return max([self.loop.time()] + list(self.until.values()) + list(self.rm_until.values()))

    # ---- choices ---------------------------------------------------------------------------------
    def ops(self):
        if self.backend == "batch":
            out = [["color", "red", 0, "a"], ["color", "blue", 300, "a"], ["color", "blue", 0, "b"], ["remove", "a", 0],
                   ["remove", "b", 300], ["other", "red"], ["other", "off"]]
            if self.io_wait:
                out.append(["io_done"])
            if self.busy_until > self.loop.time() + EPS and self.loop.next_deadline() is None:
                out.append(["wait"])
            if not self.hold_io and self.loop.next_deadline() is not None:
                out.append(["settle"])      # every pending timer in order until none is left (a run of T steps)
            return out
        out = []
        # a single (white) channel only sees shades of white: use white/gray there, red/blue elsewhere
        cols = ("gray", "white") if self.kind == "w" else ("red", "blue")
        keys = ("a", "b") if self.backend == "soft" else ("a", "b", "c")
        for key in keys:
            for col in cols:
                for fade in self.fades:
                    out.append(["color", col, fade, key])
        out.append(["off", 0, "a"])
        out.append(["on", 300, "b"])
        for key in ("a", "b"):
            for fade in self.fades:
                out.append(["remove", key, fade])
        out.append(["clear"])
        if self.busy_until > self.loop.time() + EPS:
            # a fade is running (the virtual back end has no loop timer for it): let time pass
            out.append(["wait_half"])
            out.append(["wait"])
        if self.backend == "batch":
            if self.io_wait:
                out.append(["io_done"])
            else:
                out.append(["hold_io"])
            out.append(["other", "red"])
            out.append(["other", "off"])
        return out

    def do_op(self, op):
        now = self.loop.time()
        before = tuple(self.dev.get_color())
        at_rest = self.loop.next_deadline() is None and now >= self.busy_until - EPS
        kind = op[0]
        if kind == "settle":
            n = 0
            while self.loop.next_deadline() is not None and n < 200:
                self.loop.fire_next()
                n += 1
            if self.busy_until > self.loop.time() + EPS:
                self.loop.advance(self.busy_until - self.loop.time() + 1e-4)
            return
        if kind in ("wait", "wait_half"):
            target = self.busy_until if kind == "wait" else now + (self.busy_until - now) / 2.0
            # never stop exactly on the end of a fade: at that instant the interpolated colour is one step below or at the
            # destination depending on floating-point noise in the clock (0.001 + 0.15 + 0.15 vs 0.001 + 0.3)
            if any(abs(target - u) < 1e-6 for u in list(self.until.values()) + list(self.rm_until.values())):
                target += 1e-4
            self.loop.advance(target - now)
            return
        self.fade_probe = None
        if op[0] in ("color", "on", "off", "remove"):
            f = op[2] if op[0] in ("color", "remove") else op[1]
            k = op[3] if op[0] == "color" else (op[1] if op[0] == "remove" else op[2])
            self.rm_until.pop(k, None)
            if op[0] == "remove":
                had = self.until.pop(k, None) is not None or k in self.ref
                if f and had:
                    self.rm_until[k] = now + f / 1000.0
            else:
                self.until[k] = now + f / 1000.0
        if kind in ("color", "on", "off"):
            if kind == "color":
                _, col, fade, key = op
                self.dev.color(col, fade_ms=fade, priority=KEYPRIO[key], key=key)
                rgb = COLORS[col]
            elif kind == "on":
                _, fade, key = op
                self.dev.on(fade_ms=fade, priority=KEYPRIO[key], key=key)
                rgb = COLORS["white"]
            else:
                _, fade, key = op
                self.dev.off(fade_ms=fade, priority=KEYPRIO[key], key=key)
                rgb = COLORS["off"]
            self.seq += 1
            # bounding box of what this entry can show: its colour, and while it fades in also whatever lies below it
            below = self._hull([self._box(k, now) for k, v in self.ref.items() if k != key and v["prio"] <= KEYPRIO[key]] +
                               [f["box"] for f in self.fadeouts if f["until"] > now - EPS] + [(COLORS["off"], COLORS["off"])])
            own = [self._box(key, now)] if key in self.ref else []     # a re-coloured key may fade from what it showed before
            box = self._hull([(rgb, rgb), below] + own) if fade else (rgb, rgb)
            self.ref[key] = {"prio": KEYPRIO[key], "color": rgb, "seq": self.seq, "box": box, "box_until": now + (fade or 0) / 1000.0}
            if fade and at_rest and self._top_keys() == [key]:
                self.fade_probe = (now, fade / 1000.0, before, rgb)
                self.stat("fades_from_rest")
            if fade:
                self.stat("fades")
        elif kind == "remove":
            _, key, fade = op
            self.dev.remove_from_stack_by_key(key, fade_ms=fade)
            if key in self.ref:
                self.stat("removals")
                if fade:
                    # the entry fades out from what it showed (itself and, while it was fading in, what lay below it)
                    below = [self._box(k, now) for k, v in self.ref.items() if k != key and v["prio"] <= self.ref[key]["prio"]]
                    self.fadeouts.append({"box": self._hull([self._box(key, now)] + below + [f["box"] for f in self.fadeouts
                                                                                               if f["until"] > now - EPS] +
                                                            [(COLORS["off"], COLORS["off"])]),
                                          "until": now + fade / 1000.0})
            self.ref.pop(key, None)
        elif kind == "clear":
            self.dev.clear_stack()
            self.ref = {}
            self.fadeouts = []
            self.until = {}
            self.rm_until = {}
        elif kind == "hold_io":
            self.hold_io = True
        elif kind == "io_done":
            for f in self.io_wait:
                if not f.done():
                    f.set_result(True)
            self.io_wait = []
            self.stat("io_completions")
        elif kind == "other":
            self.other.color(op[1], fade_ms=0, priority=0, key="o")
            self.ref_other = COLORS[op[1]]
            if self.io_wait:
                self.stat("command_during_batch_io")

    @staticmethod
    def _hull(boxes):
        lo = tuple(min(b[0][i] for b in boxes) for i in range(3))
        hi = tuple(max(b[1][i] for b in boxes) for i in range(3))
        return (lo, hi)

    def _box(self, key, now):
        e = self.ref[key]
        if now >= e["box_until"] - EPS:
            e["box"] = (e["color"], e["color"])
        return e["box"]

    def _fading(self):
        now = self.loop.time()
        return [e for e in self.dev.stack if e.dest_time and e.dest_time > now]

    def _top_keys(self):
        if not self.ref:
            return []
        top = max(v["prio"] for v in self.ref.values())
        return [k for k, v in self.ref.items() if v["prio"] == top]

    # ---- oracle ----------------------------------------------------------------------------------
    def expected_channels(self, rgb):
        """Brightness per hardware channel for a logical colour (no correction profile, brightness factor 1)."""
        r, g, b = rgb
        if self.kind == "w":
            return {"white": min(r, g, b) / 255.0}
        if self.kind == "bgr":
            return {"red": r / 255.0, "green": g / 255.0, "blue": b / 255.0}
        mn = min(r, g, b)       # RGBW, duck_rgb: white = min, colour channels carry the rest
        return {"red": (r - mn) / 255.0, "green": (g - mn) / 255.0, "blue": (b - mn) / 255.0, "white": mn / 255.0}

    def hw_now(self, dev):
        out = {}
        for color, drivers in dev.hw_drivers.items():
            d = drivers[0]
            if self.backend == "virtual":
                out[color] = d.current_brightness
            elif self.backend == "soft":
                out[color] = self.cmds.get("white", 0.0)
            else:
                out[color] = self.cmds.get(d.number, 0.0)
        return out

    def oracle(self, choice):
        now = self.loop.time()
        got = tuple(self.dev.get_color())
        sig_op = choice if isinstance(choice, str) else choice[0]
        if any(not 0 <= x <= 255 for x in got):
            self.violate("colour-range", "get_color() = %r" % (got,))
        # at every instant the colour lies between the colours of the entries of the stack (and of those still fading out)
        self.fadeouts = [f for f in self.fadeouts if f["until"] > now - EPS]
        lo, hi = self._hull([self._box(k, now) for k in self.ref] + [f["box"] for f in self.fadeouts] +
                            ([] if self.ref and not self.fadeouts and False else [(COLORS["off"], COLORS["off"])]))
        if any(not lo[i] - 1 <= got[i] <= hi[i] + 1 for i in range(3)):
            self.violate("colour-outside-stack", "%s shows %r but every entry of its stack (and every entry still fading out) lies "
                         "between %r and %r (stack %r)" % (self.light, got, lo, hi,
                                                            {k: (v["prio"], v["color"]) for k, v in self.ref.items()}))
        else:
            self.stat("hull_checks")
        # interpolation of a fade started from rest
        if self.fade_probe:
            t0, dur, start, dest = self.fade_probe
            if now < t0 + dur - EPS:
                ratio = (now - t0) / dur
                for i in range(3):
                    lo, hi = sorted((start[i], dest[i]))
                    exp = start[i] + (dest[i] - start[i]) * ratio
                    if not lo <= got[i] <= hi or abs(got[i] - exp) > 2:
                        self.violate("interpolation", "fade %r -> %r over %.0f ms: at %.0f ms get_color() = %r, expected "
                                     "about %r" % (start, dest, dur * 1000, (now - t0) * 1000, got,
                                                   tuple(round(start[j] + (dest[j] - start[j]) * ratio) for j in range(3))))
                        break
                if now > t0 + EPS:
                    self.stat("interpolation_points")
        # at rest: logical colour and hardware
        pending_io = bool(self.io_wait)
        if self.loop.next_deadline() is None and not pending_io and not self.loop.has_ready() and \
                now >= self.busy_until - EPS:
            self.stat("rest_states")
            tops = self._top_keys()
            if len(tops) > 1:
                self.stat("priority_ties_at_rest")
            allowed = [self.ref[k]["color"] for k in tops] if tops else [COLORS["off"]]
            if got not in allowed:
                self.violate("logical:%s" % sig_op, "%s at rest: get_color() = %r but the highest-priority entry is %r "
                             "(stack %r)" % (self.light, got, allowed, self.ref))
            else:
                hw = self.hw_now(self.dev)
                exp = self.expected_channels(got)
                bad = {c: (hw[c], exp[c]) for c in exp if abs(hw[c] - exp[c]) > 1.0 / 255 + EPS}
                if bad:
                    self.violate("hardware:%s:%s" % (self.backend, sig_op), "%s (%s) at rest shows %r logically but the "
                                 "last brightness commanded per channel is %r (expected %r)" %
                                 (self.light, self.backend, got, {c: round(v[0], 3) for c, v in bad.items()},
                                  {c: round(v[1], 3) for c, v in bad.items()}))
            if self.other is not None and self.ref_other is not None:
                hw = self.hw_now(self.other)
                exp = {"red": self.ref_other[0] / 255.0, "green": self.ref_other[1] / 255.0, "blue": self.ref_other[2] / 255.0}
                bad = {c: (hw[c], exp[c]) for c in exp if abs(hw[c] - exp[c]) > 1.0 / 255 + EPS}
                if bad:
                    self.violate("hardware:batch:other", "second batched light l_b2 was commanded %r but its channels last "
                                 "received %r" % (self.ref_other, {c: round(v[0], 3) for c, v in bad.items()}))

    def fingerprint(self):
        now = self.loop.time()
        stack = tuple((e.priority, e.key, None if e.start_color is None else tuple(e.start_color),
                       r6(e.dest_time - now) if e.dest_time and e.dest_time > now else 0,
                       None if e.dest_color is None else tuple(e.dest_color)) for e in self.dev.stack)
        batch = None
        if self.backend == "batch":
            sysm = self.system
            lights = [d for l in (self.m.lights["l_b1"], self.m.lights["l_b2"]) for ds in l.hw_drivers.values() for d in ds]
            batch = (tuple(sorted(l.number for l in sysm.dirty_lights)),
                     tuple((r6(t - now), l.number) for t, l in sysm.dirty_schedule),
                     tuple((l.number, tuple(r6(x - now) if i in (1, 3) and x > 0 else x for i, x in enumerate(l._current_fade)),
                            l._last_brightness) for l in lights),
                     tuple(sorted((l.number, v[0], r6(v[1] - now) if v[1] > now else 0) for l, v in sysm.last_state.items())),
                     sysm.dirty_lights_changed.is_set(), sysm.schedule_changed.is_set())
        soft = None
        if self.backend == "soft":
            hw = self.dev.hw_drivers["white"][0]
            soft = bool(hw.task is not None and not hw.task.done())
        # pending delayed removals are named after the key: removing the same key again replaces, another key adds
        delays = tuple(sorted(str(n) for n in self.dev.delay.delays))
        boxes = (tuple(sorted((k, self._box(k, now), r6(max(v["box_until"] - now, 0))) for k, v in self.ref.items())),
                 tuple(sorted((f["box"], r6(f["until"] - now)) for f in self.fadeouts if f["until"] > now - EPS)))
        return (stack, batch, soft, delays, boxes, r6(max(self.busy_until - now, 0)), tuple(sorted((k, v["prio"], v["color"]) for k, v in self.ref.items())),
                tuple(sorted((str(k), round(v, 4)) for k, v in self.cmds.items())), self.hold_io, len(self.io_wait), tuple(self.io_payload),
                self.ref_other, self.rel_timers(), self.task_fp())

    def observe(self):
        return {"light": self.light, "backend": self.backend, "get_color": tuple(self.dev.get_color()),
                "hw": {k: round(v, 3) for k, v in self.hw_now(self.dev).items()}}


def make(light, backend):
    class D(LightDriver):
        pass
    D.light = light
    # "batch-free": the same batched back end, but the platform's update callback returns at once (long command
    # sequences fit the depth); "batch": every update waits until the environment completes it (races with new commands)
    D.backend = "batch" if backend == "batch-free" else backend
    D.hold_io = backend != "batch-free"
    D.__name__ = "Light_%s_%s" % (light, backend.replace("-", "_"))
    return D


PLANS = [("l_rgb", "virtual"), ("l_w", "virtual"), ("l_rgbw", "virtual")]
SOFT_PLANS = [("l_soft", "soft")]
BATCH_PLANS = [("l_b1", "batch"), ("l_b1", "batch-free")]


def body(ctx):
    quick = ctx.tier == "quick"
    depth = 3 if quick else 4
    bdepth = 6 if quick else 7
    states = trans = 0
    levels = {}
    for plans, d, name in ((PLANS, depth, "main"), (SOFT_PLANS, depth + 1, "soft"), (BATCH_PLANS, bdepth, "batch")):
        res = bfs([make(l, b) for l, b in plans], d, observe=True)
        states += res.states
        trans += res.transitions
        levels[name] = res.levels
        for s in res.samples[:2]:
            ctx.sample(s)
        for sig, (what, hist) in res.violations.items():
            l, b = plans[hist[0][1]]
            ctx.violation(sig, what, {"light": l, "backend": b, "history": hist[1:]})
        for k, v in res.stats.items():
            ctx.guard(k, v)
    ctx.add(states=states, transitions=trans, traces_validated_against_impl=trans,
            searches=["%s/%s" % p for p in PLANS + SOFT_PLANS + BATCH_PLANS], levels=levels, depth=depth, batch_depth=bdepth,
            exhaustive=True)
    ctx.assume("colours {red, blue, white(on), off}, fades {0, 300 ms}, keys a (priority 0), b and c (priority 1); which of two "
               "entries with equal priority wins is not judged", "no colour-correction profile, brightness factor 1.0", "the software-faded light is searched one level deeper (depth 4 quick / 5 thorough) with keys a, b",
               "batched back end: the harness platform wraps the real PlatformBatchLightSystem; completion of the "
               "platform's update callback is an environment choice")
    return ("fades", "fades_from_rest", "interpolation_points", "removals", "rest_states", "priority_ties_at_rest",
            "io_completions", "command_during_batch_io")


def replay(ctx, data):
    rp = data["replay"]
    d = make(rp["light"], rp["backend"])()
    d.boot()
    for c in rp["history"]:
        d.step(c)
        print("  step %r -> %s" % (c, d.observe()))
    for sig, what in d.violations:
        print("  %s: %s" % (sig, what))
    return not d.violations


if __name__ == "__main__":
    runner.main("C09", "model_checking", body, replay)
