"""C03 — Switch state mirrors the hardware; handlers fire once per real change.

Explicit-state BFS over switch reports (raw / logical, duplicates), handler registrations and
removals with hold times, and time choices, on the real SwitchController of a booted machine;
a reference switch model is compared after every transition.
"""
import os
import sys

sys.path.insert(0, os.path.dirname(os.path.dirname(os.path.abspath(__file__))))

from mc import runner  # noqa: E402
from mc.driver import MachineDriver, r6  # noqa: E402
from mc.explore import bfs  # noqa: E402

EPS = 1e-6
FAR = -100000


class SwitchDriver(MachineDriver):
    machine_name = "c03"
    offer_hold = True
    offer_late = False
    switch = "s1"
    invert = 0
    # "hr" is an untimed handler whose callback removes the hold-time registrations of h1 for the active state
    HANDLERS = [(1, 0, "h1"), (1, 100, "h1"), (1, 200, "h1"), (1, 100, "h2"), (0, 0, "h1"), (0, 100, "h1"), (1, 0, "hr")]
    EVENTS = {"s1": ({1: ["s1_active"], 0: ["s1_inactive"]}, []),
              "s2": ({1: ["s2_active"], 0: ["s2_inactive"]}, []),
              "s3": ({1: ["s3_active", "sw_t3", "sw_t3_active", "s3_on"], 0: ["s3_inactive", "sw_t3_inactive", "s3_off"]},
                     [(1, 100, "s3_held")])}

    def setup(self):
        self.sc = self.m.switch_controller
        self.sw = self.m.switches[self.switch]
        self.cblog = []         # (time, kind, id)
        self.seen = 0
        self.cbs = {}
        for name in ("h1", "h2", "hr"):
            self.cbs[name] = self._mk(name)
        evs, timed = self.EVENTS[self.switch]
        for st in (0, 1):
            for ev in evs[st]:
                self.m.events.add_handler(ev, self._on_event, _ev=ev)
        for _, _, ev in timed:
            self.m.events.add_handler(ev, self._on_event, _ev=ev)
        # reference model
        self.state = 0          # the virtual platform boots every switch logically inactive (NC: hw 1)
        self.keys = {}
        self.t_change = None                        # None = "long ago"
        self.reg = {}                               # (state, ms, cb) -> count
        self.pending = []                           # (deadline, key) still to fire in this interval
        self.timed_events = list(timed)
        if self.sw.state != self.state:
            self.violate("initial-state", "switch %s boots with logical state %s, expected %s" %
                         (self.switch, self.sw.state, self.state))

    def _mk(self, name):
        def cb(**kwargs):
            self.cblog.append((self.loop.time(), "cb", (name, kwargs.get("state"), kwargs.get("ms"))))
            if name == "hr":
                # remove h1's hold-time handlers for this state from inside the dispatch of the change
                for key in [k for k in self.keys if k[2] == "h1" and k[1] > 0 and k[0] == 1]:
                    for k in self.keys.pop(key):
                        self.sc.remove_switch_handler_by_key(k)
                    if self.reg.get(key):
                        self.stat("removed_from_inside_dispatch")
                    self.reg[key] = 0
                    self.pending = [p for p in self.pending if p[1] != ("cb", (key[2], key[0], key[1]))]
        return cb

    def _on_event(self, _ev, **kwargs):
        self.cblog.append((self.loop.time(), "ev", _ev))

    def ops(self):
        out = [["report", v, lg] for v in (1, 0) for lg in (False, True)]
        for st, ms, cb in self.HANDLERS:
            out.append(["add", st, ms, cb])
        for (st, ms, cb), n in sorted(self.reg.items()):
            if n:
                out.append(["remove", st, ms, cb])
        return out

    def do_op(self, op):
        now = self.loop.time()
        self.expect = []
        if op[0] == "report":
            _, v, logical = op
            if logical:
                self.sc.process_switch(self.switch, v, logical=True)
                new = v
            else:
                self.sc.process_switch_by_num(self.sw.hw_switch.number, v, self.sw.platform)
                new = v ^ self.invert
            if new == self.state:
                self.stat("duplicate_reports")
                return
            self.stat("changes")
            self.state = new
            self.t_change = now
            if self.pending:
                self.stat("change_cancels_pending")
            self.pending = []
            for ev in self.EVENTS[self.switch][0][new]:
                self.expect.append(("ev", ev))
            for (st, ms, cb), n in sorted(self.reg.items()):
                if st != new:
                    continue
                for _ in range(n):
                    if ms == 0:
                        self.expect.append(("cb", (cb, st, ms)))
                    else:
                        self.pending.append((now + ms / 1000.0, ("cb", (cb, st, ms))))
            for st, ms, ev in self.timed_events:
                if st == new:
                    self.pending.append((now + ms / 1000.0, ("ev", ev)))
        elif op[0] == "add":
            _, st, ms, cb = op
            k = self.sc.add_switch_handler(self.switch, self.cbs[cb], state=st, ms=ms, return_info=True)
            self.keys.setdefault((st, ms, cb), []).append(k)
            self.reg[(st, ms, cb)] = self.reg.get((st, ms, cb), 0) + 1
            if ms and st == self.state and self.t_change is not None:
                d = self.t_change + ms / 1000.0
                if d > now + EPS:
                    self.pending.append((d, ("cb", (cb, st, ms))))
                    self.stat("added_mid_interval_ahead")
                else:
                    self.stat("added_mid_interval_too_late")
        elif op[0] == "remove":
            _, st, ms, cb = op
            # the handler was registered with return_info=True: the key returned by add identifies it
            for k in self.keys.pop((st, ms, cb), []):
                self.sc.remove_switch_handler_by_key(k)
            self.reg[(st, ms, cb)] = 0
            before = len(self.pending)
            self.pending = [p for p in self.pending if p[1] != ("cb", (cb, st, ms))]
            if before != len(self.pending):
                self.stat("removed_while_pending")

    def oracle(self, choice):
        now = self.loop.time()
        new = self.cblog[self.seen:]
        self.seen = len(self.cblog)
        sig_op = choice if isinstance(choice, str) else choice[0]
        if choice in ("T", "T+", "H"):
            due = sorted([p for p in self.pending if p[0] <= now + EPS], key=lambda p: p[0])
            self.pending = [p for p in self.pending if p[0] > now + EPS]
            exp = [p[1] for p in due]
            if due:
                self.stat("timed_fired", len(due))
        else:
            exp = self.expect
        got = [(k, v) for _, k, v in new]
        if sorted(got, key=repr) != sorted(exp, key=repr):
            extra = [g for g in got if g not in exp]
            missing = [e for e in exp if e not in got]
            if extra and not missing and sig_op == "add":
                sig = "fired-on-late-add"
            elif extra:
                sig = "unexpected-call:%s" % sig_op
            else:
                sig = "missing-call:%s" % sig_op
            self.violate(sig, "at t=%.3f after %r: invoked %r, expected %r (switch %s state %s since %s)" %
                         (now - self.t0, choice, got, exp, self.switch, self.state,
                          None if self.t_change is None else round(self.t_change - self.t0, 3)))
        if self.pending:
            self.expect_timer_by(min(p[0] for p in self.pending), "timed switch handler")
        if self.sw.state != self.state:
            self.violate("state:%s" % sig_op, "logical state %s, last report says %s" % (self.sw.state, self.state))
        if self.sw.hw_state != (self.state ^ self.invert) and self.t_change is not None:
            self.violate("hw_state:%s" % sig_op, "hw_state %s inconsistent with logical %s (invert=%s)" %
                         (self.sw.hw_state, self.state, self.invert))
        since = 1e9 if self.t_change is None else (now - self.t_change) * 1000.0
        for ms in (None, 100, 200):
            exp_a = self.state == 1 and (not ms or since >= ms - 1e-3)
            exp_i = self.state == 0 and (not ms or since >= ms - 1e-3)
            if bool(self.sc.is_active(self.sw, ms)) != exp_a or bool(self.sc.is_inactive(self.sw, ms)) != exp_i:
                self.violate("query:%s" % sig_op, "is_active(%s)=%s is_inactive(%s)=%s but state=%s for %.0f ms" %
                             (ms, self.sc.is_active(self.sw, ms), ms, self.sc.is_inactive(self.sw, ms),
                              self.state, since))

    def fingerprint(self):
        now = self.loop.time()
        names = {id(cb): n for n, cb in self.cbs.items()}
        return (self.state, None if self.t_change is None else min(r6(now - self.t_change), 0.5),
                tuple(sorted(self.reg.items())),
                tuple(sorted((r6(d - now), k) for d, k in self.pending)), self.rel_timers(),
                # the controller's own record of timed handlers (a removed handler can leave an empty deadline behind)
                tuple(sorted((r6(k - now), len(v)) for k, v in self.m.switch_controller._active_timed_switches.get(self.sw, {}).items())),
                # registration order decides whether "hr" runs before or after a hold-time handler is armed
                tuple(tuple((e.ms, names[id(getattr(e.callback, "func", e.callback))])
                            for e in self.sc.registered_switches[self.sw][st]
                            if id(getattr(e.callback, "func", e.callback)) in names) for st in (0, 1)))

    def observe(self):
        return {"log": [(r6(t - self.t0), k, v) for t, k, v in self.cblog], "state": self.sw.state}


class WindowDriver(MachineDriver):
    """ignore_window_ms > 0: weaker check – once the window has passed, the last posted
    activation event matches the switch state."""
    machine_name = "c03"
    offer_hold = True

    def setup(self):
        self.sc = self.m.switch_controller
        self.sw = self.m.switches["s4"]
        self.last_ev = None
        self.m.events.add_handler("s4_active", self._on, _ev=1)
        self.m.events.add_handler("s4_inactive", self._on, _ev=0)
        self.state = 0
        self.nchanges = 0

    def _on(self, _ev, **kwargs):
        self.last_ev = _ev

    def ops(self):
        return [["report", 1], ["report", 0]] if self.nchanges < 6 else []

    def do_op(self, op):
        self.sc.process_switch("s4", op[1], logical=True)
        if op[1] != self.state:
            self.state = op[1]
            self.nchanges += 1

    def oracle(self, choice):
        if self.sw.state != self.state:
            self.violate("window-state", "logical state %s, last report %s" % (self.sw.state, self.state))
        if self.loop.next_deadline() is None and self.nchanges:
            self.stat("window_rest_states")
            if self.last_ev != self.state:
                self.violate("window-last-event", "after the ignore window the last posted event says %s but the "
                             "switch is %s" % (self.last_ev, self.state))

    def fingerprint(self):
        return (self.state, self.last_ev, self.nchanges >= 6, self.rel_timers())


def make(sw, invert):
    class D(SwitchDriver):
        switch = sw
    D.invert = invert
    D.__name__ = "SwitchDriver_" + sw
    return D


def body(ctx):
    quick = ctx.tier == "quick"
    plans = [("s1", make("s1", 0), 5 if quick else 6), ("s2", make("s2", 1), 4 if quick else 6),
             ("s3", make("s3", 0), 4 if quick else 6), ("s4window", WindowDriver, 7 if quick else 10)]
    states = trans = 0
    detail = {}
    for name, drv, depth in plans:
        res = bfs(drv, depth, observe=True)
        states += res.states
        trans += res.transitions
        detail[name] = {"depth": depth, "states": res.states, "transitions": res.transitions,
                        "frontier_emptied": res.frontier_emptied, "levels": res.levels, "stats": res.stats}
        for s in res.samples[:2]:
            ctx.sample({"search": name, **s})
        for sig, (what, hist) in res.violations.items():
            ctx.violation(sig if sig.startswith("fired-on-late-add") else "%s:%s" % (name, sig), what,
                          {"search": name, "history": hist})
        for k, v in res.stats.items():
            ctx.guard(k, v)
    ctx.add(states=states, transitions=trans, traces_validated_against_impl=trans, searches=detail, exhaustive=True)
    ctx.assume("hold times from {0,100,200} ms; time explored at deadlines and at the midpoint before them",
               "ignore_window_ms > 0 only gets the weaker check that after the window the last posted event "
               "matches the state")
    return ("duplicate_reports", "changes", "change_cancels_pending", "added_mid_interval_ahead",
            "added_mid_interval_too_late", "removed_while_pending", "timed_fired", "window_rest_states")


def replay(ctx, data):
    rp = data["replay"]
    name = rp["search"]
    drv = WindowDriver if name == "s4window" else make(name, 1 if name == "s2" else 0)
    d = drv()
    d.boot()
    for c in rp["history"]:
        d.step(c)
        print("  step %r -> %s" % (c, (d.observe() or {}).get("log", [])[-3:]))
    for sig, what in d.violations:
        print("  %s: %s" % (sig, what))
    return not d.violations


if __name__ == "__main__":
    runner.main("C03", "model_checking", body, replay)
