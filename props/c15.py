"""C15 — Persistent data is durable, never torn, and survives write failures.

Stateless preemption-bounded exploration of the real DataManager / FileManager / YamlInterface:
the writer thread(s) and the main script run as real threads under a baton scheduler (scheduling
points at every Event / sleep / file-system primitive and at every source line of data_manager.py and
file_manager.py), time is virtual, the file system is in memory and logs every operation.  For every
schedule: (1) after a clean shutdown the file holds the last saved data, (2) at every prefix of the
operation log, including inside a write, the file is absent or one complete saved version, (3) with one
injected I/O error at every possible operation a later save is still written.  Plus value round trips
and persisted machine variables with expiry (sequential).
"""
import copy
import os
import sys
import types

sys.path.insert(0, os.path.dirname(os.path.dirname(os.path.abspath(__file__))))

from mc import runner, bind  # noqa: E402
from mc.explore import pmap, NPROC  # noqa: E402
from mc.memfs import MemFS  # noqa: E402
from mc.threads import Sched, VEvent, VLock, Deadlock, Horizon  # noqa: E402

bind()

from ruamel import yaml as _ruamel  # noqa: E402
import mpf.core.data_manager as dm_mod  # noqa: E402
import mpf.core.file_manager as fm_mod  # noqa: E402
import mpf.file_interfaces.yaml_interface as yaml_mod  # noqa: E402
from mpf.core.data_manager import DataManager  # noqa: E402
from mpf.core.file_manager import FileManager  # noqa: E402

A = {"a": 1, "s": "x: y # z", "n": {"k": [1, 2.5, True, None]}}
B = {"a": 2, "s": "second", "u": "ü€"}
C = {"c": 3}
X = {"other": "manager"}
# E1 == E2 for Python's ==, but they are different YAML documents (int / bool / float)
E1 = {"flag": 1, "zero": 0, "n": 1}
E2 = {"flag": True, "zero": False, "n": 1.0}
VERSIONS = {"A": A, "B": B, "C": C, "X": X, "E1": E1, "E2": E2}


def teq(a, b):
    """Equality that also compares types (1 is not True is not 1.0): what 'exactly as last saved' means for YAML."""
    if type(a) is not type(b):
        return False
    if isinstance(a, dict):
        return a.keys() == b.keys() and all(teq(a[k], b[k]) for k in a)
    if isinstance(a, (list, tuple)):
        return len(a) == len(b) and all(teq(x, y) for x, y in zip(a, b))
    return a == b


# scripts: (manager, op, arg)
SCRIPTS = {
    "save-shutdown": [("d1", "save", "A"), ("", "shutdown", None)],
    "save-wait-shutdown": [("d1", "save", "A"), ("", "sleep", 2.5), ("", "shutdown", None)],
    "save-save-shutdown": [("d1", "save", "A"), ("d1", "save", "B"), ("", "shutdown", None)],
    "save-wait-save-shutdown": [("d1", "save", "A"), ("", "sleep", 1.5), ("d1", "save", "B"), ("", "shutdown", None)],
    "save-wait-save-wait-shutdown": [("d1", "save", "A"), ("", "sleep", 1.5), ("d1", "save", "B"), ("", "sleep", 2.5),
                                     ("", "shutdown", None)],
    "two-managers": [("d1", "save", "A"), ("d2", "save", "X"), ("", "sleep", 2.5), ("d1", "save", "B"), ("", "sleep", 2.5),
                     ("", "shutdown", None)],
    # durations chosen so that the main script and the writer (1 s rate limit) wake at the same virtual instants
    "save-at-writer-wakeup": [("d1", "save", "A"), ("", "sleep", 1.0), ("d1", "save", "B"), ("", "sleep", 3.0), ("", "shutdown", None)],
    "save-at-second-wakeup": [("d1", "save", "A"), ("", "sleep", 2.0), ("d1", "save", "B"), ("", "sleep", 1.0), ("d1", "save", "C"),
                              ("", "sleep", 3.0), ("", "shutdown", None)],
    "shutdown-at-wakeup": [("d1", "save", "A"), ("", "sleep", 1.0), ("", "shutdown", None)],
    # a save whose data compares equal to what was written before but is not the same document
    "retype": [("d1", "save", "E1"), ("", "sleep", 2.5), ("d1", "save", "E2"), ("", "sleep", 2.5), ("", "shutdown", None)],
    "same-again": [("d1", "save", "A"), ("", "sleep", 2.5), ("d1", "save", "A"), ("", "sleep", 1.0), ("d1", "save", "B"),
                   ("", "shutdown", None)],
    "three-saves": [("d1", "save", "A"), ("", "sleep", 1.2), ("d1", "save", "B"), ("", "sleep", 0.5), ("d1", "save", "C"),
                    ("", "sleep", 3.0), ("", "shutdown", None)],
}
FAULT_SCRIPT = [("d1", "save", "A"), ("", "sleep", 2.5), ("d1", "save", "B"), ("", "sleep", 3.5), ("d1", "save", "C"),
                ("", "sleep", 3.5), ("", "shutdown", None)]


# the save that follows a failed write carries the same data as the failed one (a periodic re-save of unchanged values)
FAULT_SCRIPT_RESAVE = [("d1", "save", "A"), ("", "sleep", 2.5), ("d1", "save", "B"), ("", "sleep", 3.5), ("d1", "save", "B"),
                       ("", "sleep", 3.5), ("", "shutdown", None)]
FAULT_SCRIPTS = {"fault": FAULT_SCRIPT, "fault-resave": FAULT_SCRIPT_RESAVE}


def parse(text):
    return yaml_mod.YamlInterface.to_plain_dict(yaml_mod.YamlInterface.process(text))


class Execution:
    def __init__(self, script, prefix, fail_at=None):
        self.script = script
        self.sched = Sched(prefix, trace_files=("mpf/core/data_manager.py", "mpf/core/file_manager.py"), max_points=1500)
        self.fs = MemFS(self.sched, fail_at)
        self.saved = {"d1": [], "d2": []}
        self.saved_at = {"d1": [], "d2": []}       # file-system operation count when each save was requested
        self.fail_at = fail_at
        self.errors = []

    def run(self):
        s = self.sched
        fs = self.fs
        osm = fs.os_module()
        dm_mod._thread = types.SimpleNamespace(start_new_thread=lambda fn, args: s.spawn(lambda: fn(*args), "writer"))
        dm_mod.threading = types.SimpleNamespace(Event=lambda: VEvent(s, "dirty"))
        dm_mod.time = types.SimpleNamespace(sleep=s.sleep)
        dm_mod.os = osm
        fm_mod.os = osm
        yaml_mod.open = fs.open
        yaml_mod.YamlInterface.cache = False
        # a fresh dumper per execution: if two saves interleave inside the (non-reentrant) shared YAML object its
        # state may be damaged for good, which must not leak into the next execution
        yaml_mod._yaml = _ruamel.YAML(typ="safe")
        yaml_mod._yaml.default_flow_style = False
        FileManager.is_busy = False
        if hasattr(fm_mod, "threading"):
            fm_mod.threading = types.SimpleNamespace(Lock=lambda: VLock(s, "file"), RLock=lambda: VLock(s, "file"))
        for attr in ("_lock", "lock", "_save_lock"):
            if hasattr(FileManager, attr):
                setattr(FileManager, attr, VLock(s, "file"))
        machine = types.SimpleNamespace(
            config={"mpf": {"paths": {"d1": "/data/d1.yaml", "d2": "/data/d2.yaml"}},
                    "logging": {"console": {"data_manager": "none"}, "file": {"data_manager": "none"}}},
            machine_path="/m", options={"production": False}, thread_stopper=VEvent(s, "stopper"))
        self.machine = machine
        managers = {}

        def main():
            for dmn, op, arg in self.script:
                if op == "save":
                    if dmn not in managers:
                        managers[dmn] = DataManager(machine, dmn, min_wait_secs=1)
                    data = copy.deepcopy(VERSIONS[arg])
                    self.saved[dmn].append(arg)
                    self.saved_at[dmn].append(fs.opcount)
                    managers[dmn].save_all(data)
                elif op == "sleep":
                    s.sleep(arg)
                elif op == "shutdown":
                    machine.thread_stopper.set()
        s.run(main)
        for t in s.threads:
            if t.exc is not None:
                self.errors.append((t.name, repr(t.exc)))
        return self

    # ---- oracles --------------------------------------------------------------------------------
    def judge(self, expect_last=True):
        out = []
        s = self.sched
        if s.failure is not None:
            kind = "spin" if isinstance(s.failure, Horizon) else ("deadlock" if isinstance(s.failure, Deadlock) else "replay")
            out.append(("%s" % kind, "execution did not finish: %s (FileManager.is_busy=%s)" % (s.failure, FileManager.is_busy)))
            if kind == "replay":
                return out
        for name, exc in self.errors:
            if "injected I/O error" not in exc:
                out.append(("thread-exception", "thread %s died with %s" % (name, exc)))
        # (1) durability after clean shutdown
        if expect_last and s.failure is None:
            for dmn, path in (("d1", "/data/d1.yaml"), ("d2", "/data/d2.yaml")):
                if not self.saved[dmn]:
                    continue
                if self.fail_at is not None:
                    # with an injected failure: the last save requested after the failure happened has to be on disk
                    if self.fs.failed is None or not any(at > self.fail_at for at in self.saved_at[dmn]):
                        continue
                last = VERSIONS[self.saved[dmn][-1]]
                if path not in self.fs.files:
                    out.append(("lost-at-shutdown", "%s: saved %r but after a clean shutdown there is no file" %
                                (dmn, self.saved[dmn])))
                else:
                    try:
                        got = parse(self.fs.files[path])
                    except Exception as e:      # noqa
                        out.append(("torn-final", "%s: final file does not parse: %r" % (dmn, e)))
                        continue
                    if not teq(got, last):
                        older = [v for v in self.saved[dmn] if teq(VERSIONS[v], got)]
                        out.append(("stale-at-shutdown" if older else "wrong-content",
                                    "%s: last saved version is %s but the file holds %s" %
                                    (dmn, self.saved[dmn][-1], older[0] if older else got)))
        # (2) never torn, at every prefix of the operation log
        ncrash = 0
        for files, where in self.fs.states():
            ncrash += 1
            for dmn, path in (("d1", "/data/d1.yaml"), ("d2", "/data/d2.yaml")):
                if path in files:
                    try:
                        got = parse(files[path])
                    except Exception as e:      # noqa
                        out.append(("torn", "%s: %s the file does not parse (%r)" % (dmn, where, e)))
                        continue
                    if not any(teq(VERSIONS[v], got) for v in self.saved[dmn]):
                        out.append(("torn", "%s: %s the file holds %r, which is none of the saved versions" % (dmn, where, got)))
        self.crash_states = ncrash
        return out


def explore(script, bound, fail_at=None, expect_last=True, max_exec=4000):
    """All schedules with at most `bound` preemptions (iterative: 0, then 1, ...)."""
    viols = {}
    stats = {"executions": 0, "points": 0, "crash_states": 0, "max_points": 0, "preempted_in_save": 0}
    outcomes = set()
    stack = [([], 0)]
    sample = None
    while stack:
        prefix, used = stack.pop()
        ex = Execution(script, prefix, fail_at).run()
        res = ex.judge(expect_last)
        stats["executions"] += 1
        stats["points"] += len(ex.sched.choices)
        stats["crash_states"] += getattr(ex, "crash_states", 0)
        stats["max_points"] = max(stats["max_points"], len(ex.sched.choices))
        outcomes.add((tuple(sorted(ex.fs.files)), tuple(r[0] for r in res), len(ex.fs.log)))
        for sig, msg in res:
            if sig not in viols or len(prefix) < len(viols[sig][1]):
                viols[sig] = (msg, list(ex.sched.choices))
        if sample is None and ex.sched.preemptions:
            sample = {"choices": list(ex.sched.choices), "fs_ops": len(ex.fs.log), "final_files": sorted(ex.fs.files)}
        if stats["executions"] >= max_exec:
            stats["capped"] = True
            break
        if ex.sched.failure is not None:
            continue        # the execution did not finish: that is the finding; its alternatives are not expanded
        # alternatives after the prefix
        choices = ex.sched.choices
        pts = ex.sched.points
        pre = 0
        for i, (n, still) in enumerate(pts):
            if i >= len(prefix):
                for alt in range(1, n):
                    cost = pre + (1 if still else 0)
                    if cost <= bound:
                        stack.append((choices[:i] + [alt], cost))
            if still and choices[i] != 0:
                pre += 1
    return viols, stats, len(outcomes), sample


def _worker(arg):
    name, script, bound, fail_at, expect_last = arg
    viols, stats, nout, sample = explore(script, bound, fail_at, expect_last, max_exec=4000 if bound < 2 else 30000)
    return name, fail_at, viols, stats, nout, sample


def count_fs_ops(script):
    ex = Execution(script, []).run()
    return ex.fs.opcount


# ------------------------------------------------------------------------------------------------
# sequential parts: value round trip, machine variables with expiry
# ------------------------------------------------------------------------------------------------
def restore_modules():
    """Undo the module attribute patches (the workers and check_values run against the in-memory file system)."""
    import _thread, threading, time
    dm_mod._thread, dm_mod.threading, dm_mod.time, dm_mod.os = _thread, threading, time, os
    fm_mod.os = os
    if "open" in vars(yaml_mod):
        del yaml_mod.open
    FileManager.is_busy = False
    if hasattr(fm_mod, "threading"):
        fm_mod.threading = threading
    for attr in ("_lock", "lock", "_save_lock"):
        if hasattr(FileManager, attr):
            setattr(FileManager, attr, threading.Lock())


VALUES = [0, -1, 2 ** 40, 0.5, -0.0, 1e-7, True, False, None, "", " ", "a", "x: y", "# c", "multi\nline", "ü€\U0001d11e",
          "'q'", '"d"', "1", "1.5", "true", "null", "~", "- a", "{a: 1}", [], [1, "a", None], {}, {"k": [1, {"j": 2.5}]},
          {"1": 1}, [[], {}]]


def check_values(ctx):
    restore_modules()
    fs = MemFS()
    osm = fs.os_module()
    fm_mod.os = osm
    yaml_mod.open = fs.open
    yaml_mod.YamlInterface.cache = False
    FileManager.is_busy = False
    n = 0
    for v in VALUES:
        data = {"v": v, "w": [v]}
        n += 1
        try:
            FileManager.save("/data/v.yaml", copy.deepcopy(data))
            got = FileManager.load("/data/v.yaml")
        except Exception as e:      # noqa
            ctx.violation("value-roundtrip:%s" % type(v).__name__, "saving %r raised %r" % (data, e), {"value": repr(v)})
            FileManager.is_busy = False
            continue
        if repr(got) != repr(data):
            ctx.violation("value-roundtrip:%s" % type(v).__name__, "saved %r, loaded %r" % (data, got), {"value": repr(v)})
    ctx.guard("values_roundtrip", n)
    return n


def check_machine_vars(ctx):
    """Persisted machine variables reload equal unless their expiry has passed (real MachineVariables)."""
    restore_modules()
    sys.path.insert(0, os.path.dirname(os.path.dirname(os.path.abspath(__file__))))
    from mc.boot import System, MemDataManager
    n = 0
    store = {}

    def factory(machine, name):
        return MemDataManager(store.setdefault(name, {}))
    s1 = System("null", data_manager_factory=factory)
    m = s1.machine
    m.variables.set_machine_var("keep", 5, persist=True)
    m.variables.set_machine_var("text", "hé", persist=True)
    m.variables.configure_machine_var("short", persist=True, expire_secs=10)
    m.variables.set_machine_var("short", 7)
    m.variables.set_machine_var("volatile", 9)
    written = copy.deepcopy(m.variables.machine_var_data_manager.written_data)
    s1.close()
    for later, expect_short in ((5, 7), (20, None)):
        store2 = {"machine_vars": copy.deepcopy(written)}

        def factory2(machine, name, _s=store2):
            return MemDataManager(_s.setdefault(name, {}))
        s2 = System("null", data_manager_factory=factory2, boot=False)
        s2.loop._vtime = 0.001 + later      # the reboot happens `later` seconds after the values were written
        s2.boot()
        mv = s2.machine.variables
        n += 1
        got = {k: mv.get_machine_var(k) for k in ("keep", "text", "short", "volatile")}
        exp = {"keep": 5, "text": "hé", "short": expect_short, "volatile": None}
        if got != exp:
            ctx.violation("machine-vars-reload", "reboot %ss later: machine variables %r, expected %r" % (later, got, exp),
                          {"later": later})
        s2.close()
    ctx.guard("machine_var_reloads", n)
    return n


def body(ctx):
    quick = ctx.tier == "quick"
    bound = 1 if quick else 2
    jobs = []
    for name, script in SCRIPTS.items():
        jobs.append((name, script, bound, None, True))
    nops = 0
    for fname, fscript in FAULT_SCRIPTS.items():
        n = count_fs_ops(fscript)
        nops += n
        for k in range(n):
            jobs.append((fname, fscript, 0 if quick else 1, k, True))
    total = {"executions": 0, "points": 0, "crash_states": 0}
    nout = 0
    capped = False
    for name, fail_at, viols, stats, no, sample in pmap(_worker, jobs, chunksize=1):
        for k in total:
            total[k] += stats[k]
        capped = capped or stats.get("capped", False)
        nout += no
        if sample:
            ctx.sample({"script": name, "fail_at": fail_at, **sample})
        for sig, (msg, choices) in viols.items():
            if name in FAULT_SCRIPTS:
                # after the injected failure the later save has to be on disk
                full = "%s:%s" % (name, sig)
            else:
                full = "%s:%s" % (sig, name)
            ctx.violation(full, "script %s%s: %s" % (name, "" if fail_at is None else " (I/O error injected at file-system operation %d)" % fail_at, msg),
                          {"script": name, "fail_at": fail_at, "choices": choices})
    # the fault script expects B at the end: judged here through 'stale'/'lost' signatures of the fault runs
    nv = check_values(ctx)
    nm = check_machine_vars(ctx)
    ctx.guard("schedules", total["executions"])
    ctx.guard("crash_states", total["crash_states"])
    ctx.add(evaluations=total["executions"] + nv + nm, distinct_nontrivial=nout, schedules=total["executions"],
            scheduling_points=total["points"], crash_states_checked=total["crash_states"], preemption_bound=bound,
            fault_positions=nops, scripts=len(SCRIPTS) + len(FAULT_SCRIPTS), capped=capped,
            rule="every schedule of the writer thread(s) against the main script with at most %d preemption(s) (scheduling "
                 "points: Event/sleep/file-system primitives and every line of data_manager.py / file_manager.py), each run "
                 "to completion under virtual time; for every schedule every prefix of the file-system operation log "
                 "(writes additionally cut after the first and before the last byte) is a crash state; one injected I/O "
                 "error at every operation index. distinct = distinct (final files, verdicts, log length) per job" % bound,
            exhaustive=not capped)
    ctx.assume("process-crash model: the disk state after a crash is a prefix of the operation log (FileManager.save never "
               "calls fsync, so a power-loss model is out of scope)", "two data managers at most; preemption bound %d" % bound,
               "deepcopy of the data is atomic with respect to the main thread (callers hand over a fresh dict)")
    return ("schedules", "crash_states", "values_roundtrip", "machine_var_reloads")


def replay(ctx, data):
    rp = data["replay"]
    if "script" not in rp:
        print("  ", rp)
        return False
    script = FAULT_SCRIPTS[rp["script"]] if rp["script"] in FAULT_SCRIPTS else SCRIPTS[rp["script"]]
    ex = Execution(script, rp["choices"], rp.get("fail_at")).run()
    res = ex.judge(rp["script"] != "fault" or True)
    print("  fs log:", [(o[0], o[1]) for o in ex.fs.log])
    print("  final files:", {k: v[:60] for k, v in ex.fs.files.items()})
    for sig, msg in res:
        print("  %s: %s" % (sig, msg))
    return not res


if __name__ == "__main__":
    runner.main("C15", "fault_enumeration", body, replay)
