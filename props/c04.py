"""C04 / C05 — ball counts agree with the physical machine; ball requests make progress.

One harness, two oracles (props/c05.py runs the same exploration and reports the C05 signatures).
Real machine (ball devices, playfield, ball controller, game mode) on the plain `virtual` platform
plus the physical world of mc/world.py.  Deviation-bounded stateless search: every execution follows
a script of game actions taken at rest (start, add a ball, drain, lock shot) with the default world
answers (every eject succeeds quickly); a deviation (cost 1) is another outcome of a coil pulse (ball
falls back / does not move / arrives after the eject timeout / reaches the playfield without hitting a
switch) or an action taken while the devices are still busy (drain, playfield switch hit, start, add a
ball, lock shot).  All executions with <= 2 (quick) / <= 3 (thorough) deviations are run to rest.
"""
import os
import sys

sys.path.insert(0, os.path.dirname(os.path.dirname(os.path.abspath(__file__))))

from mc import runner  # noqa: E402
from mc.boot import System  # noqa: E402
from mc.explore import dbs  # noqa: E402
from mc.vloop import LivelockError  # noqa: E402
from mc.world import World  # noqa: E402

class Races:
    """Owns the one scheduling choice the virtual loop does not: Util.first() waits on a *set* of futures and returns
    `next(iter(done))`; when several complete in the same loop iteration the winner depends on object addresses.
    Here the futures keep the caller's order, the first listed wins, and the exploration may flip one race."""
    flip = False
    count = 0
    flipped = 0


class ReadyProbe:
    """Where the harness learns *when* a target told a source it was ready to receive (class-level wrapper around
    BallCountHandler.wait_for_ready_to_receive, harness side only).  The world notes how much room the target physically
    had at that instant; a later "fired-at-full-device" is then either a readiness answer that was already wrong
    (no room when it was given) or a race between two sources that were both told "ready" (room taken afterwards)."""
    world = None
    installed = False


def install_ready_probe():
    if ReadyProbe.installed:
        return
    from mpf.devices.ball_device.ball_count_handler import BallCountHandler
    orig = BallCountHandler.wait_for_ready_to_receive

    async def wait_for_ready_to_receive(self, source):
        res = await orig(self, source)
        w = ReadyProbe.world
        if w is not None:
            w.note_ready(self.ball_device.name, getattr(source, "name", str(source)))
        return res
    BallCountHandler.wait_for_ready_to_receive = wait_for_ready_to_receive
    ReadyProbe.installed = True


def install_race_control():
    import asyncio
    from mpf.core.utility_functions import Util
    install_ready_probe()

    async def first(futures, timeout=None, cancel_others=True):
        fs = []
        for f in futures:
            f = asyncio.ensure_future(f)
            if f not in fs:
                fs.append(f)
        try:
            done, pending = await asyncio.wait(fs, timeout=timeout, return_when=asyncio.FIRST_COMPLETED)
        except asyncio.CancelledError:
            Util.cancel_futures(fs)
            raise
        if cancel_others:
            for f in fs:
                if f in pending:
                    f.cancel()
        if not done:
            raise asyncio.TimeoutError()
        cands = [f for f in fs if f in done]
        if len(cands) > 1:
            Races.count += 1
            if Races.flip:
                Races.flip = False
                Races.flipped += 1
                return cands[-1]
        return cands[0]
    Util.first = staticmethod(first)


_TROUGH = {"switches": ["s_t1", "s_t2", "s_t3"], "coil": "c_trough", "target": "bd_plunger", "eject_timeout": 3.0}
_PLUNGER = {"switches": ["s_plunger"], "coil": "c_plunger", "target": "playfield", "eject_timeout": 4.0}
_COMMON = {"drain": "bd_trough", "pf_switch": "s_pf", "transit_time": 0.3, "pf_time": 1.0}
TOPO = {
    "t1": dict(_COMMON, devices={"bd_trough": _TROUGH, "bd_plunger": _PLUNGER}, balls={"bd_trough": 2}),
    "t1r": dict(_COMMON, devices={"bd_trough": _TROUGH, "bd_plunger": dict(_PLUNGER, shot=True)}, balls={"bd_trough": 2}, config="t1"),
    "t1m": dict(_COMMON, devices={"bd_trough": _TROUGH, "bd_plunger": dict(_PLUNGER, mechanical=True)}, balls={"bd_trough": 2}),
    "t4": dict(_COMMON, drain="bd_outhole", balls={"bd_trough": 2},
               devices={"bd_outhole": {"switches": ["s_outhole"], "coil": "c_outhole", "target": "bd_trough", "eject_timeout": 3.0},
                        "bd_trough": {"switches": ["s_t1", "s_t2", "s_t3"], "coil": "c_trough", "target": "playfield", "eject_timeout": 4.0}}),
    "t5": dict(_COMMON, drain="bd_outhole", balls={"bd_trough": 2, "bd_outhole": 1}, config="t4",
               devices={"bd_outhole": {"switches": ["s_outhole"], "coil": "c_outhole", "target": "bd_trough", "eject_timeout": 3.0},
                        "bd_trough": {"switches": ["s_t1", "s_t2"], "coil": "c_trough", "target": "playfield", "eject_timeout": 4.0}}),
    "t2": dict(_COMMON, devices={"bd_trough": _TROUGH, "bd_plunger": _PLUNGER,
                                 "bd_lock": {"entrance": "s_lock_entrance", "capacity": 2, "coil": "c_lock", "target": "playfield",
                                             "eject_timeout": 4.0, "shot": True}}, balls={"bd_trough": 2}),
    "t2b": dict(_COMMON, devices={"bd_trough": _TROUGH, "bd_plunger": _PLUNGER,
                                  "bd_lock": {"entrance": "s_lock_entrance", "capacity": 2, "coil": "c_lock", "target": "playfield",
                                              "eject_timeout": 4.0, "shot": True}}, balls={"bd_trough": 2}, events=["release_lock"]),
    "t6": dict(_COMMON, devices={"bd_trough": _TROUGH, "bd_plunger": _PLUNGER,
                                 "bd_lock": {"entrance": "s_lock_entrance", "capacity": 2, "coil": "c_lock", "target": "playfield",
                                             "eject_timeout": 4.0, "shot": True, "holds": True}}, balls={"bd_trough": 3},
               events=["release_hold"]),
    "t3": dict(_COMMON, devices={"bd_trough": _TROUGH, "bd_plunger": _PLUNGER,
                                 "bd_saucer": {"switches": ["s_saucer"], "coil": "c_saucer", "target": "playfield", "eject_timeout": 2.0,
                                               "shot": True}}, balls={"bd_trough": 2}),
    # a ball save that returns saved balls after an eject delay
    "t8": dict(_COMMON, devices={"bd_trough": _TROUGH, "bd_plunger": _PLUNGER}, balls={"bd_trough": 2}),
    # two sources (trough and VUK) feed the one-ball plunger lane
    "t7": dict(_COMMON, devices={"bd_trough": _TROUGH, "bd_plunger": _PLUNGER,
                                 "bd_vuk": {"switches": ["s_vuk"], "coil": "c_vuk", "target": "bd_plunger", "eject_timeout": 3.0,
                                            "shot": True}}, balls={"bd_trough": 2}),
}
# name -> (topology, config patches, script of actions taken at rest)
SCRIPTS = {
    "one-ball-game": ("t1", None, [["start"], ["drain"]]),
    "two-balls-in-play": ("t1", None, [["start"], ["add"], ["drain"], ["drain"]]),
    "two-ball-game": ("t1", {"game": {"balls_per_game": 2}}, [["start"], ["drain"], ["drain"]]),
    "mechanical-plunger": ("t1m", None, [["start"], ["plunge", "bd_plunger", "ok"], ["drain"]]),
    "lock-shot": ("t2", None, [["start"], ["shoot", "bd_lock"], ["drain"]]),
    "saucer-shot": ("t3", None, [["start"], ["shoot", "bd_saucer"], ["drain"]]),
    "plunger-lane-return": ("t1r", None, [["start"], ["add"], ["shoot", "bd_plunger"], ["drain"], ["drain"]]),
    "over-request": ("t1", None, [["start"], ["add"], ["add"], ["drain"], ["drain"], ["drain"]]),
    "outhole": ("t4", None, [["start"], ["add"], ["drain"], ["drain"]]),
    "full-trough": ("t5", {"ball_devices": {"bd_trough": {"ball_switches": "s_t1, s_t2"}},
                           "virtual_platform_start_active_switches": "s_t1, s_t2, s_outhole",
                           "game": {"allow_start_with_ball_in_drain": True}}, [["start"], ["drain"]]),
    "stale-lock-request": ("t2b", None, [["event", "release_lock"], ["start"], ["add"], ["add"], ["drain"], ["drain"], ["drain"]]),
    "held-balls": ("t6", None, [["start"], ["shoot", "bd_lock"], ["add"], ["shoot", "bd_lock"], ["add"], ["shoot", "bd_lock"],
                                ["event", "release_hold"], ["drain"], ["drain"], ["drain"]]),
    "ball-save": ("t8", None, [["start"], ["add"], ["drain"], ["drain"]]),
    "vuk-to-plunger": ("t7", None, [["start"], ["add"], ["shoot", "bd_vuk"], ["drain"], ["drain"]]),
    "two-attempts": ("t1", {"ball_devices": {"bd_plunger": {"max_eject_attempts": 2}}}, [["start"], ["drain"]]),
}
DEEP_SCRIPTS = ("one-ball-game", "mechanical-plunger", "two-attempts", "lock-shot", "saucer-shot")
LONG_SCRIPTS = ("over-request", "stale-lock-request", "held-balls")
QUICK_SCRIPTS = ("one-ball-game", "two-balls-in-play", "mechanical-plunger", "lock-shot", "saucer-shot", "plunger-lane-return",
                 "over-request", "outhole", "full-trough", "stale-lock-request", "held-balls", "vuk-to-plunger", "ball-save")
MAX_REST_STEPS = 400


class BallDriver:
    script_name = "one-ball-game"

    def __init__(self):
        self.violations = []
        self.stats = {}
        self.hist = []

    # ---- lifecycle --------------------------------------------------------------------------------
    def boot(self):
        install_race_control()
        Races.flip, Races.count, Races.flipped = False, 0, 0
        topo, patches, self.script = SCRIPTS[self.script_name]
        self.max_attempts = {d: (c.get("max_eject_attempts", 0)) for d, c in ((patches or {}).get("ball_devices") or {}).items()}
        self.max_adds = 2 if self.script_name in ("over-request", "stale-lock-request", "held-balls") else 1
        self.events_used = 0
        self.sys = System("c04", TOPO[topo].get("config", topo) + ".yaml", patches=patches)
        self.m = self.sys.machine
        self.loop = self.sys.loop
        self.t0 = self.loop.time()
        self.w = World(self.sys, TOPO[topo])
        ReadyProbe.world = self.w
        self.pos = 0
        self.adds = 0
        self.requested = 0
        self.drains = 0
        self.ev = []
        self.devs = []
        self.started = False
        self._races = 0
        self._done = False
        self.m.events.add_handler("ball_started", self._on_ball_started)
        self.drains_seen = 0
        self.m.events.add_handler("ball_drain", self._on_ball_drain, priority=100000)
        self.saved = 0
        for bs in [b.name for b in getattr(self.m, "ball_saves", {}).values()] if hasattr(getattr(self.m, "ball_saves", {}), "values") else []:
            self.m.events.add_handler("ball_save_%s_saving_ball" % bs, self._on_saving_ball)
        for d in self.w.dev:
            for e in ("ball_eject_failed", "ball_eject_success", "broken", "ball_missing"):
                self.m.events.add_handler("balldevice_%s_%s" % (d, e), self._on_ev, _n="%s_%s" % (d, e))
        self.loop.drain()
        self._errors("boot")
        for sig, what in self.w.violations:
            self.violate("C04:" + sig, what)
        self.w.violations = []
        self.check_always("boot")
        if self.at_rest():
            self.check_rest("boot")

    def _on_ball_started(self, **kwargs):
        self.requested += 1

    def _on_saving_ball(self, balls=0, **kwargs):
        self.saved += balls             # a saved ball is promised back to the playfield
        self.stat("balls_saved", balls)

    def _on_ball_drain(self, balls=0, **kwargs):
        self.drains_seen += balls

    def _on_ev(self, _n, **kwargs):
        self.ev.append((round(self.loop.time() - self.t0, 3), _n))

    def close(self):
        self.sys.close()

    # ---- choices --------------------------------------------------------------------------------
    def at_rest(self):
        return self.w.quiet() and self.loop.next_deadline() is None

    def actions(self):
        out = []
        if self.w.loose > 0:
            out += [["drain"], ["pfhit"]]
            out += [["shoot", d] for d, c in self.w.dev.items() if c.get("shot")]
        for d, c in self.w.dev.items():
            if c.get("mechanical") and self.w.at[d] > 0 and d not in self.w.kicks:
                out += [["plunge", d, "ok"], ["plunge", d, "fallback"]]
        if self.events_used < 2:
            out += [["event", e] for e in self.w.spec.get("events", [])]
        if self.m.game is None and not self.started:
            out.append(["start"])
        if self.m.game is not None and self.adds < self.max_adds and self.m.game.balls_in_play < self.w.total + self.max_adds - 1:
            out.append(["add"])
        return out

    def enabled(self):
        if self._done:
            return []
        acts = self.actions()
        if self.w.kicks:
            # the ball reacts to the pulse now (default) - or something else happens first
            return [(["kick", self.w.kicks[0], o], 0 if i == 0 else 1) for i, o in enumerate(self.w.outcomes(self.w.kicks[0]))] + \
                [(a, 1) for a in acts]
        if self.loop.next_deadline() is not None:
            return [("T", 0)] + [(a, 1) for a in acts]
        nxt = self.script[self.pos] if self.pos < len(self.script) else None
        if nxt is None or nxt not in acts:
            return []
        return [(nxt, 0)] + [(a, 1) for a in acts if a != nxt]

    def done(self):
        return self._done or not self.enabled()

    # ---- execution ------------------------------------------------------------------------------
    def races_last_step(self):
        return self._races

    def step(self, choice):
        self.hist.append(choice)
        before = Races.count
        if choice != "T" and choice[0] == "~":
            Races.flip = True
            self.devs.append("race-flipped")
            self.stat("races_flipped")
            choice = choice[1]
        self._tag(choice)
        self._step(choice)
        Races.flip = False
        self._races = Races.count - before
        if self._races:
            self.stat("simultaneous_completions", self._races)

    def _step(self, choice):
        try:
            self._do(choice)
            self.m.events.process_event_queue()
            self.loop.drain()
        except LivelockError as e:
            self.violate("C05:livelock", "the loop never becomes idle after %r: %s" % (choice, e))
            self.loop._ready.clear()
            self._done = True
        except Exception as e:      # noqa
            import traceback
            tb = traceback.extract_tb(e.__traceback__)
            where = next((f for f in reversed(tb) if "/mpf/" in f.filename), tb[-1])
            self.violate("C05:EXC:%s" % type(e).__name__, "%r raised %r at %s:%s" % (choice, e, os.path.basename(where.filename), where.lineno))
        self._errors(choice)
        for sig, what in self.w.violations:
            self.violate("C04:" + sig, what)
        self.w.violations = []
        self.check_always(choice)
        if self.at_rest():
            self.stat("rest_states")
            self.check_rest(choice)

    def _tag(self, choice):
        """Canonical name of a deviation from the default answer (part of every violation signature)."""
        if choice == "T":
            return
        if choice[0] == "kick":
            if choice[2] != "ok":
                self.devs.append("%s:%s" % (choice[2], choice[1]))
        else:
            name = choice[0]
            if name == "plunge" and choice[2] != "ok":
                name = "plunge-" + choice[2]
            if not self.at_rest():
                self.devs.append("%s@busy" % name)
            elif not (self.pos < len(self.script) and self.script[self.pos] == choice):
                self.devs.append("%s@rest" % name)

    def _do(self, choice):
        if choice == "T":
            self.loop.fire_next()
            return
        k = choice[0]
        if k == "kick":
            if choice[2] != "ok":
                self.stat("eject_" + choice[2])
            self.w.resolve(choice[2])
        elif k == "event":
            self.events_used += 1
            self.stat("control_events")
            self.m.events.post(choice[1])
        elif k == "start":
            self.started = True
            self.stat("starts")
            self.m.switch_controller.process_switch("s_start", 1, True)
            self.m.switch_controller.process_switch("s_start", 0, True)
        elif k == "add":
            self.adds += 1
            self.stat("adds")
            self.m.game.balls_in_play += 1
            self.m.playfield.add_ball()
        elif k == "drain":
            self.drains += 1
            self.stat("drains")
            if not self.at_rest():
                self.stat("drains_while_busy")
            self.w.drain()
        elif k == "pfhit":
            self.w.pf_hit()
        elif k == "shoot":
            self.stat("shots")
            self.w.shoot(choice[1])
        elif k == "plunge":
            self.stat("plunges")
            self.w.plunge(choice[1], choice[2])
        if self.pos < len(self.script) and self.script[self.pos] == choice:
            self.pos += 1

    def finish(self):
        """Default answers until nothing moves any more, then the rest oracle."""
        n = 0
        while n < MAX_REST_STEPS:
            n += 1
            if self.w.kicks:
                self.step(["kick", self.w.kicks[0], "ok"])
            elif self.loop.next_deadline() is not None:
                self.step("T")
            else:
                break
        else:
            self.violate("C05:never-at-rest", "after %d further default steps the devices are still busy: %s" %
                         (MAX_REST_STEPS, self.describe()))
        self._done = True

    def state_key(self):
        now = self.loop.time()
        return (self.w.key(now), tuple((n, d.balls, d.available_balls, d.state) for n, d in sorted(self.devices())),
                self.m.playfield.balls, self.m.playfield.available_balls, self.m.game is not None,
                self.m.game.balls_in_play if self.m.game else None, self.pos)

    def outcome(self):
        return repr((tuple(sorted(self.w.at.items())), self.w.loose, self.m.game is not None,
                     tuple((n, d.balls, d.state) for n, d in sorted(self.devices()))))

    # ---- oracles --------------------------------------------------------------------------------
    def devices(self):
        return [(n, d) for n, d in self.m.ball_devices.items() if not d.is_playfield()]

    def describe(self):
        return {"world": self.w.describe(),
                "mpf": {n: (d.balls, d.available_balls, d.state) for n, d in self.devices()},
                "playfield": (self.m.playfield.balls, self.m.playfield.available_balls),
                "known": self.m.ball_controller.num_balls_known,
                "game": None if self.m.game is None else {"balls_in_play": self.m.game.balls_in_play},
                "t": round(self.loop.time() - self.t0, 3)}

    def check_always(self, choice):
        for n, d in self.devices():
            cap = self.w.capacity(n)
            if d.balls < 0:
                # (a negative count that is still there at rest is reported by the rest oracle as well)
                self.violate("C04:count-negative-transient:%s" % n, "%s.balls = %d after %r: %s" % (n, d.balls, choice, self.describe()))
            elif d.balls > cap:
                self.violate("C04:count-above-capacity:%s" % n, "%s.balls = %d (capacity %d) after %r: %s" % (n, d.balls, cap, choice, self.describe()))
        if self.m.playfield.balls < 0:
            self.violate("C04:playfield-negative-transient", "playfield.balls = %d after %r: %s" % (self.m.playfield.balls, choice, self.describe()))

    def check_rest(self, choice):
        w = self.w
        desc = None
        for n, d in self.devices():
            if d.balls != w.at[n]:
                desc = desc or self.describe()
                self.violate("C04:rest-count:%s" % n, "at rest after %r %s.balls = %d but %d ball(s) are physically in it: %s" %
                             (choice, n, d.balls, w.at[n], desc))
        if self.m.playfield.balls != w.loose:
            desc = desc or self.describe()
            self.violate("C04:rest-playfield", "at rest after %r playfield.balls = %d but %d ball(s) are loose: %s" %
                         (choice, self.m.playfield.balls, w.loose, desc))
        known = self.m.ball_controller.num_balls_known
        total = sum(d.balls for _, d in self.devices()) + self.m.playfield.balls
        if known != w.total or total != known:
            desc = desc or self.describe()
            self.violate("C04:rest-conservation", "at rest after %r the counts sum to %d, num_balls_known = %d, the machine has %d balls: %s" %
                         (choice, total, known, w.total, desc))
        pending = (self.m.game is not None and self.m.game.balls_in_play > w.total) or \
            any(c.get("mechanical") and w.at[n] > 0 for n, c in self.w.dev.items()) or \
            any(d.state in ("eject_broken", "waiting_for_target_ready") for _, d in self.devices())
        if not pending:
            for n, d in self.devices() + [("playfield", self.m.playfield)]:
                if d.available_balls != d.balls and not (n != "playfield" and self.w.dev[n].get("mechanical") and w.at[n] > 0) \
                        and getattr(d, "state", "idle") in ("idle",):
                    desc = desc or self.describe()
                    self.violate("C04:rest-available:%s" % n, "at rest after %r %s.available_balls = %d but balls = %d and no request is "
                                 "pending: %s" % (choice, n, d.available_balls, d.balls, desc))
        # ---- C05 ----
        waiting_for_player = 0
        broken = False
        for n, d in self.devices():
            mech = self.w.dev[n].get("mechanical")
            if mech and w.at[n] > 0 and d.state in ("waiting_for_ball_to_leave", "ejecting", "ball_left"):
                waiting_for_player += w.at[n]      # only the player can serve this eject
                continue
            if d.state == "eject_broken":
                broken = True
                if not any(e == "%s_broken" % n for _, e in self.ev):
                    self.violate("C05:broken-not-reported:%s" % n, "%s is in eject_broken but balldevice_%s_broken was never posted" % (n, n))
                continue
            lim = self.max_attempts.get(n, 0)
            if lim and w.failed_kicks[n] >= lim:
                desc = desc or self.describe()
                self.violate("C05:attempts-exhausted-not-broken:%s" % n, "%d ejects of %s in a row failed (max_eject_attempts=%d) but at rest it is "
                             "in state %s, not eject_broken: %s" % (w.failed_kicks[n], n, lim, d.state, desc))
            if d.state == "waiting_for_target_ready" and any(
                    c.get("mechanical") and w.at[t] > 0 for t, c in self.w.dev.items() if t == self.w.dev[n]["target"]):
                continue        # its target holds a ball that only the player can launch
            tgt = self.w.dev[n]["target"]
            if d.state == "waiting_for_target_ready" and tgt in self.m.ball_devices and self.m.ball_devices[tgt].state == "eject_broken":
                continue        # its target has reported itself broken
            if d.state == "waiting_for_target_ready" and tgt in self.w.dev and w.at[tgt] >= self.w.capacity(tgt):
                continue        # its target is physically full: nothing can be served until a ball leaves it
            if d.state != "idle":
                desc = desc or self.describe()
                self.violate("C05:rest-not-idle:%s:%s" % (n, d.state), "nothing moves any more (no timer, no ball in transit) but %s is in "
                             "state %s after %r: %s" % (n, d.state, choice, desc))
        if self.m.game is not None and not broken and not waiting_for_player:
            # requests: one per ball start plus the added ones; a request beyond the balls of the machine waits for a drain;
            # only drains MPF has recognised end a request (a drain it took for a returning ball is simply served again)
            want = min(self.requested + self.adds - self.drains_seen + self.saved, w.total)
            held = sum(w.at[n] for n, c in self.w.dev.items() if c.get("holds"))     # a ball a ball_hold keeps is where it should be
            if w.loose + waiting_for_player + held < want:
                desc = desc or self.describe()
                self.violate("C05:request-not-delivered", "at rest after %r: %d ball(s) were requested for the playfield (%d ball starts, %d "
                             "added), MPF has seen %d drain, the machine has %d balls, but only %d are on the playfield (%d wait for the "
                             "player in a plunger) and nothing is moving: %s" %
                             (choice, self.requested + self.adds, self.requested, self.adds, self.drains_seen, w.total, w.loose,
                              waiting_for_player, desc))

    # ---- helpers --------------------------------------------------------------------------------
    def stat(self, name, n=1):
        self.stats[name] = self.stats.get(name, 0) + n

    def violate(self, sig, what):
        if sig.startswith("C04:fired-at-full-device") and sig.endswith(":room-taken-after-ready"):
            self.double_eject = True
        elif getattr(self, "double_eject", False):
            sig += "~after-double-eject"        # aftermath of two sources racing for one free place (known finding)
        self.violations.append(("%s@%s[%s]" % (sig, self.script_name, "+".join(sorted(self.devs))), "%s  [history: %s]" % (what, self.hist)))

    def _errors(self, where):
        errs = self.loop.unhandled()
        if errs:
            e = errs[0]
            exc = e.get("exception")
            self.violate("C05:EXC:%s" % (type(exc).__name__ if exc else "loop"),
                         "unhandled exception after %r: %r / %s" % (where, exc, e.get("message")))
            self.loop.exc_log = []


def make_driver(script):
    class D(BallDriver):
        script_name = script
    D.__name__ = "BallDriver_" + script.replace("-", "_")
    return D


def explore(ctx, prefix):
    quick = ctx.tier == "quick"
    bound = 2 if quick else 3
    total_exec, total_steps = 0, 0
    outcomes = set()
    states = set()
    bounds = {}
    for name in (QUICK_SCRIPTS if quick else SCRIPTS):
        # the long scripts (30-50 choice points by default) get one deviation less; the third deviation of the thorough
        # tier is only affordable on the scripts with one ball in play
        b = bound - 1 if name in LONG_SCRIPTS else bound
        if not quick and name not in LONG_SCRIPTS and name not in DEEP_SCRIPTS:
            b = 2
        bounds[name] = b
        res = dbs(make_driver(name), b, horizon=120)
        total_exec += res.executions
        total_steps += res.steps
        outcomes |= set(res.outcomes)
        states |= {(name, k) for k in res.state_set}
        for s in res.samples[:1]:
            ctx.sample({"script": name, **s})
        for sig, (what, taken) in res.violations.items():
            if sig.startswith(prefix):
                ctx.violation(sig, what, {"script": name, "choices": taken})
        for k, v in res.stats.items():
            ctx.guard(k, v)
        ctx.guard("bound_completed_" + name, res.bound_completed + 1)
    ctx.guard("distinct_outcomes", len(outcomes))
    ctx.add(executions=total_exec, states=len(states), transitions=total_steps, traces_validated_against_impl=total_exec,
            deviation_bound=bound, deviation_bound_per_script=bounds, distinct_final_states=len(outcomes), exhaustive=True)
    ctx.assume("topologies %s; scripts %s" % (sorted(TOPO), {k: (v[0], v[1], v[2]) for k, v in SCRIPTS.items() if not quick or k in QUICK_SCRIPTS}),
               "world outcomes per coil pulse: ok / silent (playfield only) / falls back after 0.6 s / does not move / arrives 1 s "
               "after the eject timeout; transit 0.3 s between devices, 1 s to the first playfield switch",
               "deviation bound per script: %r; every execution is run to rest with default answers" % (bounds,),
               "ideal switches (no bounce); ball search disabled; balls never vanish")
    return ("starts", "drains", "rest_states", "distinct_outcomes")


def body(ctx):
    return explore(ctx, "C04:")


def replay_fn(ctx, data):
    rp = data["replay"]
    d = make_driver(rp["script"])()
    d.boot()
    for c in rp["choices"]:
        d.step(c)
        print("  %r -> %s" % (c, d.describe()))
    d.finish()
    for sig, what in d.violations:
        print("  %s: %s" % (sig, what))
    return not [v for v in d.violations if v[0].startswith(ctx.prop + ":")]


if __name__ == "__main__":
    runner.main("C04", "model_checking", body, replay_fn)
