"""C11 — Player state is isolated per player and restored on their next turn.

Explicit-state BFS over scoring / progress events (variable_player, persisted counter and accrual, shot
with a 3-state profile, achievement, timer ticks, persisted enable flag), drains, player adds, game end
and a new game, in a 3-player 2-ball fake game with a game mode.  Differential oracles: nothing that
happens during a player's turn changes another player's variables; what a player's devices show when
their next ball starts equals what they showed when their previous ball ended; a new game starts from
the configured initial values; every variable change posts exactly one correct player_<var> event.
"""
import copy
import os
import sys

sys.path.insert(0, os.path.dirname(os.path.dirname(os.path.abspath(__file__))))

from mc import runner, fakegame  # noqa: E402
from mc.driver import MachineDriver  # noqa: E402
from mc.explore import bfs  # noqa: E402

PROGRESS = ["score_ev", "lives_ev", "hit_cnt", "acc_a", "hit_sh", "sh_off", "ach_enable", "ach_start", "ach_complete", "tm_add",
            "tm_start", "tm_pause"]
INITIAL = {"lives": 3, "score": 0}


def plain(v):
    """Comparable snapshot of a player variable (device state objects are flattened)."""
    if hasattr(v, "value") and hasattr(v, "enabled") and hasattr(v, "completed"):
        return ("logicblock", copy.deepcopy(v.value), v.enabled, v.completed)
    if isinstance(v, dict):
        return tuple(sorted((k, plain(x)) for k, x in v.items()))
    if isinstance(v, (list, tuple)):
        return tuple(plain(x) for x in v)
    return v


class PlayerDriver(MachineDriver):
    machine_name = "c11"
    time_horizon = 3.0

    def setup(self):
        fakegame.install(self.m)
        m = self.m
        self.varlog = []
        for var in ("score", "lives"):
            m.events.add_handler("player_" + var, self._on_var, _v=var)
        self.ball_end_view = {}      # player number -> device view when their last ball ended
        self.pending_restore = None
        self.last_player = None
        m.events.add_handler("ball_will_end", self._ball_will_end, priority=10000)
        m.events.add_handler("mode_gm_started", self._gm_started, priority=-1000)
        self.games = 0
        m.events.add_handler("game_started", self._game_started)
        # reference for the timer: it only runs when started during the current ball (start_running is off)
        self.tm_running = False
        self.tm_resume_at = None
        m.events.add_handler("ball_will_end", self._tm_reset, priority=9999)
        m.events.add_handler("mode_gm_started", self._tm_reset, priority=-999)

    def _tm_reset(self, **kwargs):
        self.tm_running = False
        self.tm_resume_at = None
        self.tm_epoch = getattr(self, "tm_epoch", 0) + 1

    def _on_var(self, _v, **kwargs):
        self.varlog.append((_v, kwargs.get("value"), kwargs.get("prev_value"), kwargs.get("change"), kwargs.get("player_num")))

    def _game_started(self, **kwargs):
        self.games += 1
        self.ball_end_view = {}

    def view(self):
        """What the game-mode devices show right now (public attributes)."""
        m = self.m
        return {"cnt": m.counters["cnt"].value, "acc": tuple(m.accruals["acc"].value or ()),
                "shot_state": m.shots["sh"].state_name, "shot_enabled": bool(m.shots["sh"].enabled),
                "ach": m.achievements["ach"].state}

    def _ball_will_end(self, **kwargs):
        g = self.m.game
        if g and g.player and self.m.modes["gm"].active:
            self.ball_end_view[g.player.number] = self.view()

    def _gm_started(self, **kwargs):
        g = self.m.game
        if g and g.player:
            self.pending_restore = g.player.number

    def others(self):
        g = self.m.game
        if not g or not g.player:
            return {}
        return {p.number: {k: plain(v) for k, v in p.vars.items()} for p in g.player_list if p is not g.player}

    focus = None        # restrict the alphabet (a deeper search over fewer operations)

    def ops(self):
        out = [[e] for e in (self.focus or PROGRESS)]
        out += [["drain"], ["start"]] + ([] if self.focus else [["end_game"]])
        return out

    def do_op(self, op):
        m = self.m
        g = m.game
        k = op[0]
        self.before_others = self.others()
        self.before_player = g.player.number if g and g.player else None
        self.before_vals = {v: g.player[v] for v in ("score", "lives")} if g and g.player else None
        self.varlog_mark = len(self.varlog)
        self.turn_op = False
        self.tick_before = g.player["gm_tm_tick"] if g and g.player else None
        if k in PROGRESS or (self.focus and k in self.focus):
            if g and g.player and m.modes["gm"].active:
                if k == "tm_start":
                    self.tm_running = True
                    self.tm_resume_at = None
                elif k == "tm_pause":
                    self.tm_running = False
                    self.tm_resume_at = self.loop.time() + 2.0
            m.events.post(k)
            self.turn_op = True
            if g and len(g.player_list) > 1:
                self.stat("progress_with_other_players")
        elif k == "drain":
            if g and g.balls_in_play:
                fakegame.drain_one(self.sys)
                self.loop.advance(0.2)
                self.stat("drains")
        elif k == "start":
            fakegame.press_start(self.sys)
            self.loop.advance(0.2)
        elif k == "end_game":
            if g:
                fakegame.end_game(self.sys, 0.2)

    def _step(self, choice):
        if choice in ("T", "T+", "H"):
            g = self.m.game
            self.before_others = self.others()
            self.before_player = g.player.number if g and g.player else None
            self.before_vals = {v: g.player[v] for v in ("score", "lives")} if g and g.player else None
            self.varlog_mark = len(self.varlog)
            self.turn_op = True         # time passing during a turn must not touch the other players either
            self.tick_before = g.player["gm_tm_tick"] if g and g.player else None
            self.tm_was_running = self.tm_running or (self.tm_resume_at is not None)
            self.epoch_before = getattr(self, "tm_epoch", 0)
        super()._step(choice)
        if choice in ("T", "T+", "H"):
            if self.tm_resume_at is not None and self.loop.time() >= self.tm_resume_at - 1e-6:
                self.tm_running = True
                self.tm_resume_at = None

    def oracle(self, choice):
        m = self.m
        g = m.game
        k = choice if isinstance(choice, str) else choice[0]
        # (1) isolation: progress events during a turn never touch another player's variables
        if getattr(self, "turn_op", False) and g and g.player and g.player.number == self.before_player:
            now_others = self.others()
            for num, vars_before in self.before_others.items():
                if num in now_others and now_others[num] != vars_before:
                    diff = {x: (vars_before.get(x), now_others[num].get(x)) for x in set(vars_before) | set(now_others[num])
                            if vars_before.get(x) != now_others[num].get(x)}
                    self.violate("isolation:%s" % sorted(diff)[0], "event %s during player %d's turn changed player %d's "
                                 "variables: %r" % (k, g.player.number, num, diff))
            # (4) one correct event per change of score / lives
            evs = self.varlog[self.varlog_mark:]
            for var in ("score", "lives"):
                new = g.player[var]
                old = self.before_vals[var]
                mine = [e for e in evs if e[0] == var]
                if new != old:
                    exp = (var, new, old, new - old, g.player.number)
                    if mine != [exp]:
                        self.violate("var-event:%s" % var, "player_%s events %r, expected exactly %r" % (var, mine, exp))
                    self.stat("var_events_checked")
                elif mine:
                    self.violate("var-event-spurious:%s" % var, "player_%s event %r without a change" % (var, mine))
        # (1b) the current player's timer only ticks when it was started (or resumes from a pause) during this ball
        if k in ("T", "T+", "H") and g and g.player and g.player.number == self.before_player and \
                self.tick_before is not None and g.player["gm_tm_tick"] > self.tick_before and not self.tm_was_running and \
                self.epoch_before == getattr(self, "tm_epoch", 0):
            self.violate("timer-ticks-unstarted", "player %d's timer ticks changed from %s to %s although the timer was not started "
                         "during this ball (a pause from an earlier turn resumed it?)" %
                         (g.player.number, self.tick_before, g.player["gm_tm_tick"]))
        # (2) restoration when a player's next ball starts
        if self.pending_restore is not None and g and g.player and m.modes["gm"].active and \
                g.player.number == self.pending_restore:
            num = self.pending_restore
            self.pending_restore = None
            if num in self.ball_end_view:
                self.stat("restorations_checked")
                now_view = self.view()
                if now_view != self.ball_end_view[num]:
                    diff = {x: (self.ball_end_view[num][x], now_view[x]) for x in now_view if now_view[x] != self.ball_end_view[num][x]}
                    self.violate("restore:%s" % sorted(diff)[0], "player %d's devices showed %r when their last ball ended, "
                                 "now that their next ball starts they show %r" % (num, {x: v[0] for x, v in diff.items()},
                                                                               {x: v[1] for x, v in diff.items()}))
            else:
                # first ball of this player in this game: configured initial values
                self.stat("first_balls_checked")
                v = self.view()
                init = {"cnt": 0, "acc": (False, False), "shot_state": "one", "shot_enabled": True, "ach": "disabled"}
                if v != init or g.player["lives"] != INITIAL["lives"] or g.player["score"] != 0:
                    self.violate("initial-values", "player %d starts their first ball of game %d with %r lives=%r score=%r, "
                                 "configured initial values are %r lives=3 score=0" %
                                 (num, self.games, v, g.player["lives"], g.player["score"], init))

    def fingerprint(self):
        m = self.m
        g = m.game
        players = tuple(tuple(sorted((k, repr(plain(v))) for k, v in p.vars.items())) for p in g.player_list) if g else None
        return (players, g.player.number if g and g.player else None, g.balls_in_play if g else None, g.ending if g else None,
                tuple(sorted((n, repr(sorted(v.items()))) for n, v in self.ball_end_view.items())), self.pending_restore,
                self.tm_running, None if self.tm_resume_at is None else round(self.tm_resume_at - self.loop.time(), 6),
                bool(m.timers["tm"].running),
                m.playfield.balls, self.modes_fp(), self.rel_timers(), self.task_fp(), self.games > 1)

    def observe(self):
        g = self.m.game
        return {"player": g.player.number if g and g.player else None, "view": self.view() if g else None,
                "players": {p.number: {"score": p["score"], "lives": p["lives"], "ball": p["ball"]} for p in g.player_list} if g else None}


class LaneFocus(PlayerDriver):
    """Lane shots with a shot group that rotates them (rotation pattern r, l): what a player's lanes show depends only on
    what that player did - two players with the same own history of lane operations see the same lanes."""
    focus = ["hit_la", "rot"]

    def setup(self):
        super().setup()
        self.cur_game = self.m.game
        self.ball_of = {}
        self.own = {}           # player number -> tuple of lane operations applied during that player's turns
        self.seen_lanes = {}    # own history -> (lanes, player number) first observed

    def do_op(self, op):
        g = self.m.game
        num = g.player.number if g and g.player else None
        active = bool(g and g.player and self.m.modes["gm"].active)
        super().do_op(op)
        g2 = self.m.game
        if g2 is not self.cur_game:
            # a new game: player numbers start again with fresh players
            self.cur_game = g2
            self.own = {}
            self.ball_of = {}
            return
        if op[0] in self.focus and active and num is not None:
            self.own[num] = self.own.get(num, ()) + (op[0],)

    def oracle(self, choice):
        super().oracle(choice)
        g = self.m.game
        if not g or not g.player or not self.m.modes["gm"].active:
            return
        num = g.player.number
        # the rotation pattern starts afresh with every ball (the mode restarts): ball boundaries are part of the own history
        if self.ball_of.get(num) != g.player.ball:
            self.ball_of[num] = g.player.ball
            self.own[num] = self.own.get(num, ()) + ("|",)
        hist = self.own.get(num, ())
        lanes = tuple(self.m.shots[s].state_name for s in ("la", "lb", "lc"))
        first = self.seen_lanes.setdefault(hist, (lanes, num))
        if first[0] != lanes:
            self.violate("lanes-depend-on-other-player", "player %d did %r on the lanes and sees %r, player %d did the same and saw %r" %
                         (num, list(hist), lanes, first[1], first[0]))
        elif first[1] != num:
            self.stat("lane_histories_compared")

    def fingerprint(self):
        grp = self.m.shot_groups["lanes"]
        return (super().fingerprint(), tuple(sorted(self.own.items())), tuple(sorted(self.ball_of.items())),
                tuple(sorted((k, v[0]) for k, v in self.seen_lanes.items())),
                tuple(self.m.shots[s].state_name for s in ("la", "lb", "lc")),
                tuple(grp.rotation_pattern) if getattr(grp, "rotation_pattern", None) is not None else None,
                getattr(grp, "rotation_enabled", None))


class TimerFocus(PlayerDriver):
    """Deeper search over the timer's operations only (timed pause, ticks across turns)."""
    focus = ["tm_start", "tm_pause", "tm_add"]


def body(ctx):
    quick = ctx.tier == "quick"
    states = trans = 0
    levels = {}
    for name, drv, depth in (("all", PlayerDriver, 6 if quick else 7), ("timer", TimerFocus, 9 if quick else 11),
                             ("lanes", LaneFocus, 10 if quick else 12)):
        res = bfs(drv, depth, observe=True)
        states += res.states
        trans += res.transitions
        levels[name] = res.levels
        for s in res.samples[:2]:
            ctx.sample({"search": name, **s})
        for sig, (what, hist) in res.violations.items():
            ctx.violation(sig, what, {"search": name, "history": hist})
        for k, v in res.stats.items():
            ctx.guard(k, v)
    ctx.add(states=states, transitions=trans, traces_validated_against_impl=trans, levels=levels, exhaustive=True)
    ctx.assume("3 players x 2 balls, fake game; one game mode with persisted counter/accrual, shot with 3-state profile, "
               "achievement (restart/enable on next ball configured), timer, variable_player; timer ticks are checked for "
               "isolation only (the timer restarts from its start value with the mode)",
               "BFS depth 6 (quick) / 7 (thorough) over all operations plus depth 9 / 11 over the timer operations only and depth 10 / 12 over "
               "lane shots rotated by a shot group (same own history => same lanes for every player)")
    return ("progress_with_other_players", "drains", "var_events_checked", "restorations_checked", "first_balls_checked")


def replay(ctx, data):
    d = {"timer": TimerFocus, "lanes": LaneFocus}.get(data["replay"].get("search"), PlayerDriver)()
    d.boot()
    for c in data["replay"]["history"]:
        d.step(c)
        print("  step %r -> %s" % (c, d.observe()))
    for sig, what in d.violations:
        print("  %s: %s" % (sig, what))
    return not d.violations


if __name__ == "__main__":
    runner.main("C11", "model_checking", body, replay)
