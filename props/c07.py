"""C07 — Mode lifecycle is well-formed and leaves nothing behind.

Explicit-state BFS over start / stop requests (direct and by event), the same requests issued from
handlers of the mode's own lifecycle events (armed by the environment), waiting handlers on the
mode's starting / stopping queue events cleared in any order, and time, for a mode with devices,
config players and custom code (event handler, delay, switch handler) plus a use_wait_queue mode
that another mode's start stops.  Oracles: per-mode automaton over the posted lifecycle events,
active-mode list, responsiveness of accepted requests at quiescence, registry equality whenever
everything has stopped.
"""
import os
import sys

sys.path.insert(0, os.path.dirname(os.path.dirname(os.path.abspath(__file__))))

from mc import runner  # noqa: E402
from mc.driver import MachineDriver, simple_state  # noqa: E402
from mc.explore import bfs  # noqa: E402

LIFE = ["will_start", "starting", "started", "will_stop", "stopping", "stopped"]
NEXT = {None: "will_start", "stopped": "will_start", "will_start": "starting", "starting": "started",
        "started": "will_stop", "will_stop": "stopping", "stopping": "stopped"}
MODES = ["m1", "m2"]


def _qual(cb):
    f = getattr(cb, "func", cb)
    return getattr(f, "__qualname__", None) or type(f).__name__


class ModeDriver(MachineDriver):
    machine_name = "c07"
    time_horizon = 1.5
    ARMS = [("stopped", "start"), ("started", "stop"), ("will_start", "stop"), ("starting", "stop"),
            ("will_stop", "start"), ("stopping", "start"), ("started", "start"), ("stopped", "stop")]

    def setup(self):
        m = self.m
        self.last = {n: None for n in MODES}        # last lifecycle event per mode
        self.trace = {n: [] for n in MODES}
        self.waits = {}                             # name -> queue (waiting handlers, cleared by the environment)
        self.armed = {}                             # (mode, event) -> action, one-shot
        self.hold = set()                           # (mode, "starting"/"stopping") the environment holds
        for n in MODES:
            for ev in LIFE:
                m.events.add_handler("mode_%s_%s" % (n, ev), self._life, priority=-1000, _m=n, _e=ev)
        m.events.add_handler("m1_delay_fired", self._delay_fired)
        self.baseline = self.registry()
        self.prio_at_start = {}
        self.pending_start = {n: False for n in MODES}
        self.pending_stop = {n: False for n in MODES}

    # ---- observation ---------------------------------------------------------------------------
    def _delay_fired(self, **kwargs):
        """m1's own 1 s delay (added in mode_start): once the mode has been asked to stop it must never fire."""
        self.stat("mode_delays_fired")
        if self.last["m1"] not in ("starting", "started"):
            self.violate("mode-delay-fired-after-stop", "the delay m1 added in mode_start fired while the mode's last lifecycle event is %s "
                         "(trace %r)" % (self.last["m1"], self.trace["m1"][-6:]))

    def _life(self, _m, _e, queue=None, **kwargs):
        exp = NEXT[self.last[_m]]
        if _e != exp:
            self.violate("lifecycle-order:%s" % _m, "mode %s posted mode_%s_%s after %s (expected %s); trace %r" %
                         (_m, _m, _e, self.last[_m], exp, self.trace[_m][-8:]))
        self.last[_m] = _e
        self.trace[_m].append(_e)
        if _e == "started":
            self.pending_start[_m] = False
        if _e == "stopped":
            self.pending_stop[_m] = False
        # environment-held queue events
        if _e in ("starting", "stopping") and (_m, _e) in self.hold and queue is not None:
            self.hold.discard((_m, _e))
            queue.wait()
            self.waits["%s_%s" % (_m, _e)] = queue
            self.stat("held_queue_events")
        act = self.armed.pop((_m, _e), None)
        if act:
            self.stat("requests_from_lifecycle_handlers")
            self._request(_m, act, direct=True)

    def registry(self):
        m = self.m
        ev = []
        for e, lst in m.events.registered_handlers.items():
            for h in lst:
                q = _qual(h.callback)
                if q.startswith("ModeDriver.") or "_wait_handler" in q:
                    continue
                ev.append((e, q, h.priority))
        sw = []
        for s, states in m.switch_controller.registered_switches.items():
            for st, lst in enumerate(states):
                for h in lst:
                    sw.append((s.name, st, h.ms, _qual(h.callback)))
        timers = []
        for h in self.loop.live_timers():
            cb = h._callback
            owner = getattr(cb, "__self__", None)
            if owner is not None and getattr(owner, "_canceled", False):
                continue        # a cancelled PeriodicTask keeps one inert handle
            timers.append(_qual(cb))
        def names(dm):
            return sorted("<anonymous>" if len(n) == 36 and n.count("-") == 4 else n for n in dm.delays)
        delays = {n: names(m.modes[n].delay) for n in MODES}
        delays["machine"] = names(m.delay)
        dev = {"counter_state": m.counters["m1_counter"]._state is not None, "timer_running": bool(m.timers["m1_timer"].running),
               "timer_delays": sorted(m.timers["m1_timer"].delay.delays) if m.timers["m1_timer"].delay else []}
        lights = sorted((e.key, e.priority) for e in m.lights["l1"].stack)
        return {"event_handlers": sorted(ev), "switch_handlers": sorted(sw), "timers": sorted(timers), "delays": delays,
                "devices": dev, "light_stack": lights}

    # ---- requests -------------------------------------------------------------------------------
    def _request(self, mode, action, direct):
        md = self.m.modes[mode]
        if action == "start":
            accepted = not md.active and not md.starting
            if accepted:
                self.pending_start[mode] = True
            if direct == "prio":
                md.start(mode_priority=400)         # a start with a priority that differs from the configured one
                if accepted:
                    self.prio_at_start[mode] = 400
            elif direct:
                md.start()
            else:
                self.m.events.post("start_%s" % mode)
            if accepted and direct != "prio":
                self.prio_at_start[mode] = md.config["mode"]["priority"]
        else:
            accepted = md.active
            if accepted:
                self.pending_stop[mode] = True
            if direct:
                md.stop()
            else:
                self.m.events.post("stop_%s" % mode)

    def ops(self):
        out = []
        for n in MODES:
            out += [["start", n], ["stop", n], ["ev_start", n], ["ev_stop", n]]
        out.append(["start_prio", "m2"])
        for ev, act in self.ARMS:
            if ("m1", ev) not in self.armed:
                out.append(["arm", ev, act])
        for q in ("starting", "stopping"):
            if ("m1", q) not in self.hold:
                out.append(["hold", q])
        for w in sorted(self.waits):
            out.append(["clear", w])
        out.append(["use", "m1_count"])
        out.append(["use", "m1_cnt_off"])      # a control event of a mode device with a delay
        return out

    def do_op(self, op):
        k = op[0]
        if k == "start_prio":
            self._request(op[1], "start", direct="prio")
        elif k in ("start", "stop"):
            self._request(op[1], k, direct=True)
        elif k in ("ev_start", "ev_stop"):
            self._request(op[1], k[3:], direct=False)
        elif k == "arm":
            self.armed[("m1", op[1])] = op[2]
        elif k == "hold":
            self.hold.add(("m1", op[1]))
        elif k == "clear":
            self.waits.pop(op[1]).clear()
            self.stat("clears")
        elif k == "use":
            self.m.events.post(op[1])

    # ---- oracle ---------------------------------------------------------------------------------
    def oracle(self, choice):
        m = self.m
        sig_op = choice if isinstance(choice, str) else choice[0]
        # active list == active modes, sorted by priority (desc)
        act = [md for md in m.mode_controller.active_modes]
        names = sorted(md.name for md in act)
        really = sorted(n for n, md in m.modes.items() if md.active)
        if names != really:
            self.violate("active-list", "active_modes %r but active modes are %r" % (names, really))
        pr = [md.priority for md in act]
        if pr != sorted(pr, reverse=True):
            self.violate("active-order", "active_modes priorities %r are not descending" % pr)
        for n in MODES:
            md = m.modes[n]
            if md.active and n in self.prio_at_start and md.priority != self.prio_at_start[n]:
                self.violate("priority-changed:%s" % n, "mode %s was started with priority %s and is still active, but its priority is "
                             "now %s" % (n, self.prio_at_start[n], md.priority))
            if md.active != (self.last[n] in ("started", "will_stop", "stopping")):
                if not (self.last[n] == "starting" and md.active):      # active is set just before 'started' is dispatched
                    self.violate("active-flag:%s" % n, "mode %s active=%s but its last lifecycle event is %s" %
                                 (n, md.active, self.last[n]))
        quiescent = not self.waits and not self.loop.has_ready()
        if quiescent:
            self.stat("quiescent_states")
            for n in MODES:
                md = m.modes[n]
                if self.pending_start[n] and not md.active and self.last[n] != "stopped":
                    self.violate("start-never-completes:%s" % n, "an accepted start of %s did not reach 'started' (last "
                                 "event %s, starting=%s)" % (n, self.last[n], md.starting))
                if self.pending_stop[n] and (md.active or md.stopping):
                    self.violate("stop-never-completes:%s" % n, "an accepted stop of %s did not complete (last event %s)" %
                                 (n, self.last[n]))
                if md.starting or md.stopping:
                    self.violate("limbo:%s" % n, "mode %s is %s although nothing is outstanding" %
                                 (n, "starting" if md.starting else "stopping"))
                # a running mode must react to its stop event (its handlers must exist)
                if md.active and not md.stopping:
                    evs = [h for h in m.events.registered_handlers.get("stop_%s" % n, [])]
                    if not evs:
                        self.violate("deaf-mode:%s" % n, "mode %s is active but no handler is registered for its stop event "
                                     "stop_%s (trace %r)" % (n, n, self.trace[n][-8:]))
                    elif n == "m1" and m.counters["m1_counter"]._state is None:
                        self.violate("active-without-devices", "mode m1 is active but its counter device has no state")
            if not any(md.active or md.starting or md.stopping for md in m.modes.values() if md.name in MODES) and \
                    all(t != "stopped" or True for t in self.last.values()):
                if any(self.trace[n] for n in MODES):
                    self.stat("all_stopped_states")
                    reg = self.registry()
                    if reg != self.baseline:
                        diff = {k: (reg[k], self.baseline[k]) for k in reg if reg[k] != self.baseline[k]}
                        short = {}
                        for k, (a, b) in diff.items():
                            if isinstance(a, list):
                                short[k] = {"extra": [x for x in a if x not in b][:4], "missing": [x for x in b if x not in a][:4]}
                            else:
                                short[k] = {"now": a, "before": b}
                        kind = sorted(short)[0]
                        self.violate("leftover:%s" % kind, "all modes stopped but the registries differ from before the first "
                                     "start: %r" % short)

    def fingerprint(self):
        m = self.m
        return (tuple(sorted(self.last.items())), tuple(sorted(self.armed.items())), tuple(sorted(self.hold)),
                tuple(sorted(self.waits)), tuple(sorted(self.pending_start.items())), tuple(sorted(self.pending_stop.items())),
                self.modes_fp(), repr(sorted(self.registry().items())), self.rel_timers(), self.task_fp(),
                m.counters["m1_counter"].value, m.counters["m1_counter"].enabled,
                simple_state(m.timers["m1_timer"], exclude=("timer", "delay", "event_keys"), now=self.loop.time()),
                tuple(simple_state(m.modes[n], exclude=("event_handlers", "mode_devices", "stop_methods", "start_event_kwargs",
                                                        "asset_paths", "path", "switch_handlers", "stop_callbacks")) for n in MODES))

    def observe(self):
        return {"traces": {n: t[-8:] for n, t in self.trace.items()}, "active": sorted(md.name for md in self.m.mode_controller.active_modes),
                "waits": sorted(self.waits)}


def body(ctx):
    quick = ctx.tier == "quick"
    res = bfs(ModeDriver, 5 if quick else 6, observe=True)
    for s in res.samples[:3]:
        ctx.sample(s)
    for sig, (what, hist) in res.violations.items():
        ctx.violation(sig, what, {"history": hist})
    for k, v in res.stats.items():
        ctx.guard(k, v)
    ctx.add(states=res.states, transitions=res.transitions, traces_validated_against_impl=res.transitions,
            levels=res.levels, exhaustive=True)
    ctx.assume("two modes: m1 (devices, config players, custom code with event handler / delay / switch handler) and m2 "
               "(use_wait_queue, stopped by m1's start); requests from lifecycle handlers are armed for m1 only",
               "BFS depth 5 (quick) / 6 (thorough)")
    return ("requests_from_lifecycle_handlers", "held_queue_events", "clears", "quiescent_states", "all_stopped_states")


def replay(ctx, data):
    d = ModeDriver()
    d.boot()
    for c in data["replay"]["history"]:
        d.step(c)
        print("  step %r -> %s" % (c, d.observe()))
    for sig, what in d.violations:
        print("  %s: %s" % (sig, what))
    return not d.violations


if __name__ == "__main__":
    runner.main("C07", "model_checking", body, replay)
