"""C19 — BCP messages round-trip exactly and reassemble from any chunking.

(i)  exhaustive enumeration of parameter dictionaries over a value alphabet (scalars, strings with
     separators / percent signs / type-like prefixes / unicode, nested lists and dicts) through the
     real encode_command_string / decode_command_string;
(ii) every splitting (<=2 cuts quick, <=3 thorough, plus single bytes) of the byte stream of several
     messages (with and without byte payloads) fed through the real BCPClientSocket.read_message and the
     transport manager's receive loop on the virtual loop; dispatch order observed at the interface.
"""
import asyncio
import itertools
import os
import sys

sys.path.insert(0, os.path.dirname(os.path.dirname(os.path.abspath(__file__))))

from mc import runner  # noqa: E402
from mc.boot import System  # noqa: E402
from mc.explore import pmap, NPROC  # noqa: E402

from mpf.core.bcp.bcp_socket_client import BCPClientSocket, decode_command_string, encode_command_string  # noqa: E402

STRINGS = ["", "a", "a b", "ü€𝄞", "&", "=", "?", "#", "%", "%41", "+", "int:5", "float:1", "bool:true", "NoneType:",
           "&bytes=3", "\n", "json=", "a/b", "A", ";", "\t", "'\"", "{x}",
           # strings that only start like a typed value
           "bool:yes", "Bool:1", "int:", "float:x", "NoneType:x"]
INTS = [0, -1, 5, 2 ** 63]
FLOATS = [0.5, -0.0, 1e-7, 1e22, float("inf")]
OTHERS = [True, False, None]
SCALARS = STRINGS + INTS + FLOATS + OTHERS


def nested_values(scalars):
    for s in scalars:
        yield [s]
        yield {"k": s}
        yield [[s]]
        yield {"k": [s]}
        yield [{"k": s}]
        yield {"k": {"j": s}}
    for a, b in itertools.product(scalars, repeat=2):
        yield [a, b]
    yield []
    yield {}


def tkey(v):
    """Value + type identity (distinguishes 1 / True / 1.0, -0.0 / 0.0)."""
    if isinstance(v, dict):
        return ("dict", tuple(sorted((k, tkey(x)) for k, x in v.items())))
    if isinstance(v, (list, tuple)):
        return (type(v).__name__, tuple(tkey(x) for x in v))
    return (type(v).__name__, repr(v))


def classify(v):
    """Signature class of a value that fails to round-trip (narrow: names the input class)."""
    if isinstance(v, str):
        import re
        if re.match(r"^(int|float):", v) or v.lower() in ("bool:true", "bool:false") or v == "NoneType:":
            return "str-with-type-prefix"
        if re.search(r"%[0-9a-fA-F]{2}", v):
            return "str-with-percent-escape"
        return "str:%r" % v
    if isinstance(v, (list, dict)):
        flat = repr(v)
        if "&bytes=" in flat:
            return "nested-with-bytes-marker"
        return "nested:%s" % type(v).__name__
    return type(v).__name__


def roundtrip_cases(tier):
    for cmd in ("trigger", "x_y"):
        for v in SCALARS:
            yield cmd, {"a": v}
    for k in ("a b", "ü", "a&b", "a=b", "a%41", "A"):
        for v in ("v", 1, "", None, [1]):
            yield "trigger", {k: v}
    for a, b in itertools.product(SCALARS, repeat=2):
        yield "trigger", {"a": a, "b": b}
    sc = SCALARS if tier == "thorough" else STRINGS[:16] + [5, 0.5, True, None]
    for v in nested_values(sc):
        yield "trigger", {"a": v}
        yield "trigger", {"n": 1, "a": v}


def _rt_worker(arg):
    tier, wid, n = arg
    viols = {}
    count = 0
    out = set()
    sample = []
    for idx, (cmd, kw) in enumerate(roundtrip_cases(tier)):
        if idx % n != wid:
            continue
        count += 1
        try:
            line = encode_command_string(cmd, **kw)
            problems = []
            if "\n" in line or "\r" in line:
                problems.append(("multi-line", "encoding contains a line break: %r" % line))
            dcmd, dkw = decode_command_string(line)
            if dcmd != cmd:
                problems.append(("command", "command %r decoded as %r" % (cmd, dcmd)))
            if set(dkw) != set(kw):
                problems.append(("keys", "keys %r decoded as %r" % (sorted(kw), sorted(dkw))))
            for k in kw:
                if k in dkw and tkey(dkw[k]) != tkey(kw[k]):
                    problems.append(("value:%s" % classify(kw[k]),
                                     "parameter %r=%r (%s) decoded as %r (%s) via line %r" %
                                     (k, kw[k], type(kw[k]).__name__, dkw[k], type(dkw[k]).__name__, line)))
        except Exception as e:      # noqa
            bad = [classify(v) for v in kw.values()]
            problems = [("exception:%s" % ",".join(sorted(set(bad))), "%s(%r) raised %r" % (cmd, kw, e))]
        out.add(line if not problems or problems[0][0] != "exception" else "exc")
        if len(sample) < 2 and idx % 501 == 0:
            sample.append({"cmd": cmd, "kwargs": repr(kw), "line": line})
        for sig, msg in problems:
            if sig not in viols:
                viols[sig] = (msg, {"cmd": cmd, "kwargs": repr(kw)})
    return count, viols, len(out), sample


# ------------------------------------------------------------------------------------------------
# (ii) splittings
# ------------------------------------------------------------------------------------------------
def message_menu():
    """(bytes on the wire, expected (cmd, kwargs)) — built with the real encoder for plain messages."""
    menu = []

    def plain(cmd, **kw):
        menu.append(((encode_command_string(cmd, **kw) + "\n").encode(), (cmd, kw)))
    plain("trigger", name="a b", v=1)
    plain("x_y", s="ü€")
    plain("trigger", l=[1, "x"], f=0.5)
    plain("x_y")
    plain("trigger", l=["&bytes=3", "x"])
    payload = b"\x00\n&bytes=2\nAB"
    menu.append((b"x_y?name=p&bytes=%d\n" % len(payload) + payload, ("x_y", {"name": "p", "rawbytes": payload})))
    menu.append((b"trigger?n=int:3&bytes=1\n\n", ("trigger", {"n": 3, "rawbytes": b"\n"})))
    return menu


def splittings(n, max_cuts):
    yield ()
    for k in range(1, max_cuts + 1):
        for cuts in itertools.combinations(range(1, n), k):
            yield cuts
    yield tuple(range(1, n))        # single bytes


class Feeder:
    def __init__(self):
        self.sys = System("null", patches={"bcp": {"connections": {}, "servers": []}})
        self.m = self.sys.machine
        self.loop = self.sys.loop
        self.got = []

        async def on_trigger(client, **kwargs):
            self.got.append(("trigger", kwargs))

        async def on_xy(client, **kwargs):
            self.got.append(("x_y", kwargs))
        self.m.bcp.interface.bcp_receive_commands["trigger"] = on_trigger
        self.m.bcp.interface.bcp_receive_commands["x_y"] = on_xy

    def run(self, stream, cuts):
        class Sender:
            transport = None

            def write(self, data):
                pass

            def close(self):
                pass
        client = BCPClientSocket(self.m, "c19", self.m.bcp)
        reader = asyncio.StreamReader()
        client._receiver = reader
        client._sender = Sender()
        client._send_goodbye = False
        self.got = []
        tm = self.m.bcp.transport
        tm.register_transport(client)
        self.loop.drain()
        prev = 0
        for c in list(cuts) + [len(stream)]:
            reader.feed_data(stream[prev:c])
            prev = c
            self.loop.drain()
        got = self.got
        tm.unregister_transport(client)
        self.loop.drain()
        errs = self.loop.exc_log
        self.loop.exc_log = []
        return got, errs


def _split_worker(arg):
    tier, wid, n = arg
    menu = message_menu()
    max_cuts = 2 if tier == "quick" else 3
    f = Feeder()
    viols = {}
    count = 0
    mid_frame = 0
    outcomes = set()
    sample = []
    idx = 0
    triples = list(itertools.permutations(range(len(menu)), 3))
    if tier == "quick":
        triples = [t for i, t in enumerate(triples) if i % 5 == 0]
    for t in triples:
        stream = b"".join(menu[i][0] for i in t)
        expected = [menu[i][1] for i in t]
        bounds = set(itertools.accumulate(len(menu[i][0]) for i in t))
        mc = max_cuts if len(stream) < 90 or tier == "quick" else 2
        for cuts in splittings(len(stream), mc):
            idx += 1
            if idx % n != wid:
                continue
            count += 1
            if any(c not in bounds for c in cuts):
                mid_frame += 1
            got, errs = f.run(stream, cuts)
            outcomes.add(repr(got))
            ok = len(got) == len(expected) and all(
                g[0] == e[0] and tkey(g[1]) == tkey(e[1]) for g, e in zip(got, expected))
            if errs or not ok:
                sig = "split:%s" % ("exception" if errs else "mismatch")
                if sig not in viols:
                    viols[sig] = ("stream %r split at %r produced %r (errors %r), expected %r" %
                                  (stream, cuts, got, [e.get("exception") for e in errs], expected),
                                  {"stream": repr(stream), "cuts": list(cuts)})
            if len(sample) < 1 and cuts and idx % 7919 == 0:
                sample.append({"stream": repr(stream), "cuts": list(cuts), "decoded": repr(got)})
    f.sys.close()
    return count, viols, mid_frame, len(outcomes), sample


def body(ctx):
    n = NPROC
    total = 0
    distinct = 0
    for count, viols, outc, sample in pmap(_rt_worker, [(ctx.tier, w, n) for w in range(n)], chunksize=1, workers=n):
        total += count
        distinct += outc
        for s in sample:
            ctx.sample(s)
        for sig, (msg, rp) in viols.items():
            ctx.violation("roundtrip:%s" % sig, msg, rp)
    stotal = mid = 0
    souts = 0
    for count, viols, mf, outc, sample in pmap(_split_worker, [(ctx.tier, w, n) for w in range(n)], chunksize=1, workers=n):
        stotal += count
        mid += mf
        souts += outc
        for s in sample:
            ctx.sample(s)
        for sig, (msg, rp) in viols.items():
            ctx.violation(sig, msg, rp)
    ctx.guard("reads_ending_inside_a_frame", mid)
    ctx.guard("roundtrips", total)
    ctx.add(evaluations=total + stotal, distinct_nontrivial=distinct + souts, roundtrip_cases=total,
            splitting_executions=stotal, splittings_with_read_ending_inside_frame=mid,
            rule="(i) every parameter dict with <=2 keys over the value alphabet (+ nested values of depth <=2) is encoded "
                 "and decoded by the real functions; distinct = distinct encoded lines. (ii) every splitting with <=2/3 "
                 "cut points (and the single-byte split) of ordered triples of 6 messages is fed through "
                 "BCPClientSocket.read_message + the transport receive loop; distinct = distinct decoded sequences "
                 "per worker (1 per stream when the property holds)",
            exhaustive=True)
    ctx.assume("value alphabet as listed in props/c19.py (24 strings, 4 ints, 5 floats, bools, None, nested depth <=2); "
               "parameter names from {a, b, n, 'a b', 'ü', 'a&b', 'a=b', 'a%41', 'A'}", "NaN excluded (not equal to itself)")
    return ("reads_ending_inside_a_frame", "roundtrips")


def replay(ctx, data):
    rp = data["replay"]
    if "stream" in rp:
        f = Feeder()
        stream = eval(rp["stream"])
        print("  decoded:", f.run(stream, rp["cuts"]))
        return False
    kw = eval(rp["kwargs"], {"inf": float("inf")})
    line = encode_command_string(rp["cmd"], **kw)
    dec = decode_command_string(line)
    print("  line: %r\n  decoded: %r" % (line, dec))
    return dec[0] == rp["cmd"] and tkey(dec[1]) == tkey(kw)


if __name__ == "__main__":
    runner.main("C19", "exploration", body, replay)
