"""C12 — Config validation returns well-typed complete configs or rejects.

Exhaustive enumeration: every section of config_spec.yaml x every key x a YAML-representable value
alphabet through the real ConfigValidator of a booted machine (item level), section-level validation
of constructible base configs (completeness, unknown / missing keys, spec unchanged), and every
time-string suffix x numeric form through Util.string_to_ms / string_to_secs.
"""
import copy
import math
import os
import sys
from decimal import Decimal
from fractions import Fraction

sys.path.insert(0, os.path.dirname(os.path.dirname(os.path.abspath(__file__))))

from mc import runner  # noqa: E402
from mc.boot import System  # noqa: E402
from mc.explore import pmap, NPROC  # noqa: E402

from mpf.core.config_validator import ConfigValidator, RuntimeToken, ValidationPath  # noqa: E402
from mpf.core.utility_functions import Util  # noqa: E402

VALUES = [None, True, False, 0, 1, -1, 2 ** 40, 0.5, -0.5, 255, 256, "", " ", "abc", "1", "1.5", "0x1F", "10ms", "2s",
          "none", "None", "a, b", "d1", "nodevice", [], [1], ["a", "b"], {}, {"a": 1}, [[1], {"b": 2}],
          {"a": {"b": [1]}}, "{machine.a}", "(token)", "nan", "inf", float("nan"), "yes", "on", "red", "ff0000",
          "1,2,3", "300,0,0", 4, 3, "4", 1e-7, {"zz_unknown_key": 1}, [{"zz_unknown_key": 1}],
          # mappings whose keys are not strings (legal YAML): a str-keyed dict must come back with str keys
          {1: "red", "k": 5}, {2.5: "x"}]


def in_range(v, param):
    if not param:
        return True
    lo, hi = param.split(",")
    if isinstance(v, float) and math.isnan(v):
        return lo == "NONE" and hi == "NONE"
    if lo != "NONE" and v < float(lo):
        return False
    if hi != "NONE" and v > float(hi):
        return False
    return True


def split_validator(validation):
    if "(" in validation and validation.endswith(")"):
        name, param = validation.split("(", 1)
        return name, param[:-1]
    return validation, None


class Typer:
    """Type predicates per validator, written from the spec documentation (not from the validator code)."""

    def __init__(self, machine):
        self.machine = machine

    def ok(self, validation, v):
        name, param = split_validator(validation)
        if name.endswith("_or_token"):
            if isinstance(v, RuntimeToken):
                return True
            name = name[:-len("_or_token")]
        if name in ("str", "event_posted", "event_handler", "template_str_plain"):
            return v is None or isinstance(v, str)
        if name == "lstr":
            return v is None or (isinstance(v, str) and v == v.lower())
        if name == "float":
            return v is None or (isinstance(v, float) and in_range(v, param))
        if name == "int":
            return v is None or (isinstance(v, int) and not isinstance(v, bool) and in_range(v, param))
        if name == "num":
            return v is None or (isinstance(v, (int, float)) and in_range(v, param))
        if name in ("bool", "boolean"):
            return v is None or isinstance(v, bool)
        if name == "ms":
            return v is None or (isinstance(v, int) and not isinstance(v, bool))
        if name == "secs":
            return v is None or isinstance(v, float)
        if name.startswith("template_"):
            return v is None or hasattr(v, "evaluate")
        if name == "list":
            return isinstance(v, list)
        if name == "int_from_hex":
            return isinstance(v, int) and not isinstance(v, bool)
        if name == "dict":
            return isinstance(v, dict)
        if name == "kivycolor":
            return v is None or isinstance(v, str) or (isinstance(v, list) and len(v) in (3, 4) and
                                                       all(isinstance(x, (int, float)) for x in v))
        if name == "color":
            return isinstance(v, (tuple, list)) and len(v) == 3 and all(isinstance(x, int) for x in v)
        if name == "bool_int":
            return v in (0, 1) and isinstance(v, int)
        if name == "pow2":
            return v is None or (isinstance(v, int) and not isinstance(v, bool) and v > 0 and v & (v - 1) == 0)
        if name == "gain":
            return v is None or isinstance(v, float)
        if name == "subconfig":
            if not isinstance(v, dict):
                return False
            # no unknown key survives inside a nested sub-config either
            spec = self.machine.config_validator.get_config_spec()
            allowed = set()
            open_spec = False
            for part in param.split(","):
                sub = spec
                for seg in part.split(":"):
                    sub = sub.get(seg, {}) if isinstance(sub, dict) else {}
                allowed |= set(sub)
                open_spec = open_spec or "__allow_others__" in sub
            return open_spec or all(k in allowed or str(k).startswith("_") for k in v)
        if name == "enum":
            vals = param.lower().split(",")
            return (v is None and "none" in vals) or (isinstance(v, str) and v in vals)
        if name == "machine":
            coll = getattr(self.machine, param, None)
            return v is None or (coll is not None and any(v is d for d in coll.values()))
        return None     # unknown validator: not judged

    def ok_spec(self, spec, v):
        item_type, validation, _default = spec
        if item_type == "single":
            return self.ok(validation, v)
        if item_type == "list":
            if not isinstance(v, list):
                return False
            rs = [self.ok(validation, x) for x in v]
            return None if None in rs else all(rs)
        if item_type == "set":
            if not isinstance(v, set):
                return False
            rs = [self.ok(validation, x) for x in v]
            return None if None in rs else all(rs)
        if item_type in ("dict", "event_handler"):
            if not isinstance(v, dict):
                return False
            kv, vv = validation.split(":", 1)
            rs = [self.ok(kv, k) for k in v] + [self.ok(vv, x) for x in v.values()]
            return None if None in rs else all(rs)
        return None


def rejection(e):
    """Any raised exception is a rejection; classify for the evidence only."""
    return type(e).__name__


def _item_worker(arg):
    wid, n = arg
    sysm = System("c12")
    m = sysm.machine
    cv = m.config_validator
    spec = cv.get_config_spec()
    before = copy.deepcopy({k: v for k, v in spec.items() if k != "_mode_settings"})
    typer = Typer(m)
    viols = {}
    count = accepted = rejected = unjudged = 0
    rej_kinds = {}
    sample = []
    idx = 0
    for sec in sorted(spec):
        s = spec[sec]
        if not isinstance(s, dict) or sec.startswith("_"):
            continue
        for key in sorted(s):
            sp = s[key]
            if key.startswith("_") or isinstance(sp, dict) or sp == "ignore":
                continue
            idx += 1
            if idx % n != wid:
                continue
            for vi, val in enumerate(VALUES):
                count += 1
                item = copy.deepcopy(val)
                try:
                    res = cv.validate_config_item(sp, ValidationPath(ValidationPath(None, sec), key), item)
                except BaseException as e:      # noqa
                    rejected += 1
                    k = rejection(e)
                    rej_kinds[k] = rej_kinds.get(k, 0) + 1
                    continue
                ok = typer.ok_spec(sp, res)
                if ok is None:
                    unjudged += 1
                    continue
                accepted += 1
                if not ok:
                    name, param = split_validator(sp[1])
                    cls = "nan" if (isinstance(res, float) and math.isnan(res)) else type(res).__name__
                    sig = "ill-typed:%s:%s:%s<-%s" % (sp[0], name, cls, type(val).__name__)
                    if sig not in viols:
                        viols[sig] = ("%s:%s (spec %r) accepted %r and returned %r" % (sec, key, sp, val, res),
                                      {"section": sec, "key": key, "value_index": vi, "value": repr(val)})
                if len(sample) < 2 and idx % 211 == 0 and vi == 17:
                    sample.append({"section": sec, "key": key, "spec": sp, "value": repr(val), "result": repr(res)})
    after = {k: v for k, v in spec.items() if k != "_mode_settings"}
    if after != before:
        diff = [k for k in before if before[k] != after.get(k)]
        viols["spec-modified:item"] = ("validation modified the spec sections %r" % diff[:5], {"sections": diff[:5]})
    sysm.close()
    return count, accepted, rejected, unjudged, rej_kinds, viols, sample


# ------------------------------------------------------------------------------------------------
# section level
# ------------------------------------------------------------------------------------------------
def sample_valid(validation, machine):
    name, param = split_validator(validation)
    if name.endswith("_or_token"):
        name = name[:-9]
    if name in ("str", "event_posted", "event_handler", "lstr", "template_str"):
        return "x"
    if name in ("int", "float", "num", "template_int", "template_float"):
        if param:
            lo, hi = param.split(",")
            return int(float(lo)) if lo != "NONE" else (int(float(hi)) if hi != "NONE" else 1)
        return 1
    if name in ("bool", "boolean", "template_bool", "bool_int"):
        return True
    if name in ("ms", "secs", "template_ms", "template_secs"):
        return "1s"
    if name == "list":
        return ["x"]
    if name == "int_from_hex":
        return "1F"
    if name in ("dict", "subconfig"):
        return {}
    if name in ("color", "kivycolor"):
        return "red"
    if name == "pow2":
        return 4
    if name == "gain":
        return 0.5
    if name == "enum":
        return param.split(",")[0]
    if name == "machine":
        coll = getattr(machine, param, None)
        if coll is not None and "d1" in coll:
            return "d1"
        return None
    return None


def base_config(spec, machine):
    """A config that provides every required key (no default) with a valid sample value, or None."""
    base = {}
    for key, sp in spec.items():
        if key.startswith("_") or sp == "ignore":
            continue
        if isinstance(sp, dict):
            continue
        item_type, validation, default = sp
        if default != "":
            continue
        if item_type in ("dict", "event_handler"):
            base[key] = {} if item_type == "dict" else "ev"
            continue
        v = sample_valid(validation, machine)
        if v is None:
            return None
        base[key] = [v] if item_type in ("list", "set") and not isinstance(v, list) else v
    return base


def _section_worker(arg):
    wid, n = arg
    sysm = System("c12")
    m = sysm.machine
    cv = m.config_validator
    spec = cv.get_config_spec()
    typer = Typer(m)
    viols = {}
    stats = {"sections": 0, "base_ok": 0, "no_base": 0, "unknown_key_rejected": 0, "missing_key_rejected": 0,
             "keys_checked": 0}
    before = copy.deepcopy({k: v for k, v in spec.items() if k != "_mode_settings"})
    for i, sec in enumerate(sorted(spec)):
        if i % n != wid:
            continue
        s = spec[sec]
        if not isinstance(s, dict) or sec.startswith("_"):
            continue
        stats["sections"] += 1
        base = base_config(s, m)
        if base is None:
            stats["no_base"] += 1
            continue
        try:
            res = cv.validate_config(sec, copy.deepcopy(base), "dev")
        except BaseException:       # noqa
            stats["no_base"] += 1
            continue
        stats["base_ok"] += 1
        if s.get("__type__") == "device":
            # devices validate with the common "device" base spec (as Device.validate_and_parse_config does)
            try:
                res2 = cv.validate_config(sec, copy.deepcopy(base), "dev", base_spec=("device",))
                stats["with_base_spec"] = stats.get("with_base_spec", 0) + 1
                for k in ("label", "tags", "debug"):
                    if k not in res2:
                        viols.setdefault("incomplete:base-spec", ("%s: key %r of the device base spec missing" %
                                                                  (sec, k), {"section": sec, "key": k}))
            except BaseException:   # noqa
                pass
        # complete and typed
        for key, sp in s.items():
            if key.startswith("_") or sp == "ignore":
                continue
            stats["keys_checked"] += 1
            if key not in res:
                viols.setdefault("incomplete", ("%s: key %r missing from the validated config" % (sec, key),
                                                {"section": sec, "key": key}))
                continue
            if isinstance(sp, dict):
                if not isinstance(res[key], list):
                    viols.setdefault("ill-typed:sublist", ("%s:%s should be a list of sub-configs, got %r" %
                                                           (sec, key, res[key]), {"section": sec, "key": key}))
                continue
            ok = typer.ok_spec(sp, res[key])
            if ok is False:
                viols.setdefault("ill-typed:default:%s" % sp[1], ("%s:%s default %r validated to %r" %
                                                                   (sec, key, sp[2], res[key]),
                                                                   {"section": sec, "key": key}))
        extra = [k for k in res if k not in s]
        if extra and "__allow_others__" not in s:
            viols.setdefault("unknown-survives", ("%s: keys %r not in the spec survive validation" % (sec, extra),
                                                  {"section": sec}))
        for k in base:
            if k not in res:
                viols.setdefault("provided-dropped", ("%s: provided key %r vanished" % (sec, k), {"section": sec}))
        # unknown key
        if "__allow_others__" not in s:
            cfg = copy.deepcopy(base)
            cfg["zz_unknown_key"] = 1
            try:
                cv.validate_config(sec, cfg, "dev")
                viols.setdefault("unknown-accepted", ("%s: unknown key zz_unknown_key accepted silently" % sec,
                                                      {"section": sec}))
            except BaseException:   # noqa
                stats["unknown_key_rejected"] += 1
        # missing required key
        for k in base:
            cfg = copy.deepcopy(base)
            del cfg[k]
            try:
                r2 = cv.validate_config(sec, cfg, "dev")
                viols.setdefault("missing-required-accepted", ("%s: required key %r missing but accepted (%r)" %
                                                               (sec, k, r2.get(k)), {"section": sec, "key": k}))
            except BaseException:   # noqa
                stats["missing_key_rejected"] += 1
    after = {k: v for k, v in spec.items() if k != "_mode_settings"}
    if after != before:
        diff = [k for k in before if before[k] != after.get(k)]
        viols["spec-modified:section"] = ("validation modified the spec sections %r" % diff[:5], {"sections": diff[:5]})
    sysm.close()
    return stats, viols


# ------------------------------------------------------------------------------------------------
# time strings
# ------------------------------------------------------------------------------------------------
UNITS = {"ms": Fraction(1), "msec": Fraction(1), "s": Fraction(1000), "sec": Fraction(1000), "m": Fraction(60000),
         "h": Fraction(3600000), "d": Fraction(86400000), "": Fraction(1)}
NUMBERS = ["0", "1", "2", "10", "100", "250", "0.1", "0.5", "1.5", "0.29", "0.57", "1.001", "2.675", "0.001", "1.0005",
           "0.3", "4.35", "-1", "-0.5", " 1", "1 ", "1e3", "", ".5"]


def time_cases():
    for num in NUMBERS:
        for suf in UNITS:
            yield num, suf, num + suf
            if suf:
                yield num, suf, num + suf.upper()


def check_time_strings(ctx):
    n = 0
    accepted = 0
    for num, suf, text in time_cases():
        n += 1
        try:
            exact = Fraction(Decimal(num.strip())) * UNITS[suf] if num.strip() else None
        except Exception:       # noqa
            exact = None
        for fn, scale in ((Util.string_to_ms, Fraction(1)), (Util.string_to_secs, Fraction(1, 1000))):
            if fn is Util.string_to_secs and suf == "":
                ex = None if exact is None else exact * 1000       # bare numbers are seconds for string_to_secs
            else:
                ex = exact
            try:
                got = fn(text)
            except BaseException:       # noqa
                continue                # rejection
            accepted += 1
            if ex is None:
                continue                # the oracle does not define the value of this form
            if fn is Util.string_to_ms and (not isinstance(got, int) or isinstance(got, bool)):
                ctx.violation("time:type", "string_to_ms(%r) returned %r" % (text, got), {"text": text})
                continue
            got_ms = Fraction(got) if fn is Util.string_to_ms else Fraction(Decimal(repr(got))) * 1000
            if ex.denominator == 1:
                good = got_ms == ex
            else:
                good = math.floor(ex) <= got_ms <= math.ceil(ex)
            if not good:
                ctx.violation("time:value:%s" % (suf or "bare"),
                              "%s(%r) = %r, but %s x %s = %s ms" % (fn.__name__, text, got, num.strip(), suf or "ms",
                                                                     ex), {"text": text, "fn": fn.__name__})
    ctx.guard("time_strings", n)
    ctx.guard("time_strings_accepted", accepted)
    return n


def body(ctx):
    n = NPROC
    total = acc = rej = unj = 0
    kinds = {}
    for count, accepted, rejected, unjudged, rk, viols, sample in pmap(_item_worker, [(w, n) for w in range(n)],
                                                                        chunksize=1, workers=n):
        total += count
        acc += accepted
        rej += rejected
        unj += unjudged
        for k, v in rk.items():
            kinds[k] = kinds.get(k, 0) + v
        for s in sample:
            ctx.sample(s)
        for sig, (msg, rp) in viols.items():
            ctx.violation(sig, msg, rp)
    sstats = {}
    for stats, viols in pmap(_section_worker, [(w, n) for w in range(n)], chunksize=1, workers=n):
        for k, v in stats.items():
            sstats[k] = sstats.get(k, 0) + v
        for sig, (msg, rp) in viols.items():
            ctx.violation("section:" + sig, msg, rp)
    nt = check_time_strings(ctx)
    ctx.guard("accepted", acc)
    ctx.guard("rejected", rej)
    ctx.guard("unknown_key_rejected", sstats.get("unknown_key_rejected", 0))
    ctx.guard("missing_key_rejected", sstats.get("missing_key_rejected", 0))
    ctx.add(evaluations=total + nt, distinct_nontrivial=acc, item_validations=total, accepted_and_type_checked=acc,
            rejected=rej, rejected_by_exception_type=kinds, not_judged_unknown_validator=unj, section_level=sstats,
            time_strings=nt, values=len(VALUES),
            rule="every (section, key) of the loaded config spec x every value of the alphabet goes through the real "
                 "validate_config_item; an accepted result must satisfy the type/range predicate of its spec entry; "
                 "non-trivial = accepted (a value was returned and type-checked). Section level: base config with "
                 "all required keys -> complete, typed, unknown key rejected, missing required key rejected, spec "
                 "unchanged (deep equality).", exhaustive=True)
    ctx.assume("one key perturbed at a time; value alphabet of %d values; any raised exception counts as rejection" % len(VALUES),
               "sections whose required keys need devices that the c12 machine does not define get item-level checks only")
    return ("accepted", "rejected", "unknown_key_rejected", "missing_key_rejected", "time_strings_accepted")


def replay(ctx, data):
    rp = data["replay"]
    if "text" in rp:
        fn = getattr(Util, rp.get("fn", "string_to_ms"))
        print("  %s(%r) = %r" % (fn.__name__, rp["text"], fn(rp["text"])))
        return False
    sysm = System("c12")
    cv = sysm.machine.config_validator
    sp = cv.get_config_spec()[rp["section"]][rp["key"]]
    val = VALUES[rp["value_index"]] if "value_index" in rp else None
    try:
        res = cv.validate_config_item(sp, ValidationPath(ValidationPath(None, rp["section"]), rp["key"]), val)
        ok = Typer(sysm.machine).ok_spec(sp, res)
        print("  spec %r value %r -> %r (well-typed: %s)" % (sp, val, res, ok))
        return bool(ok)
    except Exception as e:      # noqa
        print("  rejected: %r" % e)
        return True


if __name__ == "__main__":
    runner.main("C12", "exploration", body, replay)
