"""Board emulators used only for the boot handshakes of the C14 machines (OPP, PKONE, FAST Neuron)."""
import re

# ---- CRC-8 written from the OPP protocol description (poly 0x07, init 0xff), independent of MPF's table ----


def crc8(data):
    crc = 0xff
    for b in data:
        crc ^= b
        for _ in range(8):
            crc = ((crc << 1) ^ 0x07) & 0xff if crc & 0x80 else (crc << 1) & 0xff
    return crc


def opp_frame(addr, cmd, payload):
    body = bytes([addr, cmd]) + bytes(payload)
    return body + bytes([crc8(body)])


class OppChain:
    """Two gen2 cards: 0x20 = four input wings, 0x21 = two input wings + switch matrix."""

    WINGS = {0x20: [2, 2, 2, 2], 0x21: [2, 2, 4, 5]}
    LEN = {0x00: 7, 0x02: 7, 0x07: 7, 0x08: 7, 0x0d: 7, 0x13: 8, 0x14: 7, 0x17: 5, 0x19: 11, 0x06: 55, 0x09: 39}

    def __init__(self):
        self.auto = True
        self.inputs = {0x20: 0xffffffff, 0x21: 0xffffffff}
        self.matrix = {0x21: 0xffffffffffffffff}
        self.unknown = []

    def respond(self, data):
        if not self.auto:
            return None
        out = bytearray()
        i = 0
        while i < len(data):
            b = data[i]
            if b == 0xff:
                out.append(0xff)
                i += 1
            elif b == 0xf0:
                out += bytes([0xf0, 0x20, 0x21])
                i += 1
            elif (b & 0xe0) == 0x20 and i + 1 < len(data):
                cmd = data[i + 1]
                n = self.LEN.get(cmd)
                if n is None:
                    self.unknown.append(bytes(data[i:]))
                    break
                if cmd == 0x00:
                    out += opp_frame(b, 0x00, [0, 0, 0, 1])
                elif cmd == 0x0d:
                    out += opp_frame(b, 0x0d, self.WINGS[b])
                elif cmd == 0x02:
                    out += opp_frame(b, 0x02, [2, 0, 0, 0])
                elif cmd == 0x08:
                    out += opp_frame(b, 0x08, self.inputs[b].to_bytes(4, "big"))
                elif cmd == 0x19:
                    out += opp_frame(b, 0x19, self.matrix[b].to_bytes(8, "big"))
                i += n
            else:
                self.unknown.append(bytes(data[i:]))
                break
        return bytes(out)


class PkoneNano:
    """Nano controller with extension boards 0 and 1 (35 switches each)."""

    def __init__(self):
        self.auto = True
        self.buf = b""
        self.unknown = []

    def respond(self, data):
        if not self.auto:
            return None
        self.buf += data
        out = b""
        while b"E" in self.buf:
            cmd, self.buf = self.buf.split(b"E", 1)
            cmd = cmd.decode()
            if cmd == "PCN":
                out += b"PCNF11H1E"
            elif cmd == "PRS":
                out += b"PRSE"
            elif cmd in ("PCB0", "PCB1"):
                out += ("%sXF11H2PYE" % cmd).encode()
            elif cmd.startswith("PCB"):
                out += ("%sNE" % cmd).encode()
            elif cmd.startswith("PSA"):
                out += ("%s%sE" % (cmd, "0" * 35)).encode()
            else:
                self.unknown.append(cmd)
        return out


class FastNeuron:
    """Neuron controller with one FP-I/O-3208 board (32 switches, 8 drivers)."""

    def __init__(self):
        self.auto = True
        self.buf = b""
        self.unknown = []
        self.log = []

    def respond(self, data):
        if not self.auto:
            return None
        self.buf += data
        out = b""
        while b"\r" in self.buf:
            cmd, self.buf = self.buf.split(b"\r", 1)
            if not cmd:
                continue
            cmd = cmd.decode()
            self.log.append(cmd)
            r = self.answer(cmd)
            if r is None:
                self.unknown.append(cmd)
            elif r:
                out += r.encode() + b"\r"
        return out

    @staticmethod
    def answer(cmd):
        if cmd == "ID:":
            return "ID:NET FP-CPU-2000  02.13"
        if cmd.startswith("WD:"):
            return "WD:P"
        if cmd.startswith("CH:"):
            return "CH:P"
        if cmd == "SA:":
            return "SA:04,00000000"
        if cmd == "NN:00":
            return "NN:00,FP-I/O-3208-3   ,01.10,08,20,00,00,00,00,00,00"
        if cmd.startswith("NN:"):
            return "NN:F"
        m = re.fullmatch(r"(SL|DL):([0-9A-F]{2})", cmd)
        if m:
            return "%s:%s,00,00,00" % (m.group(1), m.group(2)) if m.group(1) == "SL" else \
                "DL:%s,00,00,00,00,00,00,00,00" % m.group(2)
        if re.match(r"(SL|DL|TL):", cmd):
            return cmd[:3] + "P"
        return None
