"""C05 — ball requests make progress: same harness and exploration as props/c04.py, the C05 oracles.

At rest (no loop timer, no ball in transit, no unanswered coil pulse): every ball device is idle (or has
reported itself broken), every ball requested for the playfield (ball starts, added balls) minus the
drained ones is physically there, no task died, and every execution does come to rest.
"""
import os
import sys

sys.path.insert(0, os.path.dirname(os.path.dirname(os.path.abspath(__file__))))
sys.path.insert(0, os.path.dirname(os.path.abspath(__file__)))

from mc import runner  # noqa: E402
import c04  # noqa: E402


def body(ctx):
    return c04.explore(ctx, "C05:")


if __name__ == "__main__":
    runner.main("C05", "model_checking", body, c04.replay_fn)
