#!/bin/bash
# Runs the repository's pinned test suite (BASELINE.json cmd) on /repo (or $1) and compares with the stable_pass list.
repo="${1:-/repo}"
out="$(mktemp /var/tmp/suite-XXXXXX.xml)"
cd "$repo" && /venv/bin/python -m pytest -ra -q -p no:cacheprovider --timeout=900 --continue-on-collection-errors --junitxml="$out" > "$out.log" 2>&1
python3 - "$out" <<'PY'
import json, sys, xml.etree.ElementTree as ET
base = json.load(open('/root/.vp/BASELINE.json'))
stable = set(base['stable_pass'])
t = ET.parse(sys.argv[1])
passed = set()
for tc in t.iter('testcase'):
    ok = not any(c.tag in ('failure', 'error', 'skipped') for c in tc)
    name = "%s::%s" % (tc.get('classname'), tc.get('name'))
    if ok:
        passed.add(name)
missing = sorted(stable - passed)
print("stable_pass=%d passed_now=%d missing=%d" % (len(stable), len(passed), len(missing)))
for m in missing[:30]:
    print("  NOT PASSING:", m)
sys.exit(1 if missing else 0)
PY
rc=$?
tail -3 "$out.log"
rm -f "$out" "$out.log"
exit $rc
