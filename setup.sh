#!/bin/bash
# Nothing to build: the framework is pure Python run by /venv/bin/python with /repo first on sys.path.
# This only verifies the toolchain and creates the output directories.
set -e
cd "$(dirname "$0")"
mkdir -p evidence replays
/venv/bin/python - <<'PY'
import sys
sys.path.insert(0, '.')
from mc import bind
repo = bind()
import mpf, multiprocessing as mp
assert mp.get_start_method() == 'fork'
print('mpf bound to', mpf.__file__)
PY
python3-vt -c "import jsonschema" 
echo setup ok
