"""Model-checking harness for missionpinball/mpf: binds to the working tree under REPO."""
import os
import sys

VERIF = os.path.dirname(os.path.dirname(os.path.abspath(__file__)))
REPO = os.environ.get("VERIF_REPO", "/repo")


def bind():
    """Put REPO first on sys.path and make sure `mpf` is imported from it (never site-packages)."""
    repo = os.path.abspath(REPO)
    if sys.path[0] != repo:
        sys.path.insert(0, repo)
    import mpf
    origin = os.path.abspath(mpf.__file__)
    if not origin.startswith(repo + os.sep):
        sys.stderr.write("HARNESS ERROR: mpf imported from %s, not from %s\n" % (origin, repo))
        sys.exit(2)
    return repo
