"""Common check runner: evidence, known findings, replay artefacts, exit codes.

Exit codes: 0 property held on everything explored (known findings printed), 1 violation
(a `VIOLATION property=<id> replay=<path>` line was printed), 2 harness error.
"""
import hashlib
import json
import os
import re
import subprocess
import sys
import time
import traceback

from mc import VERIF

EVIDENCE_DIR = os.environ.get("VERIF_EVIDENCE_DIR") or os.path.join(VERIF, "evidence")
REPLAY_DIR = os.environ.get("VERIF_REPLAY_DIR") or os.path.join(VERIF, "replays")
KNOWN = os.path.join(VERIF, "known_findings.json")
SCHEMA = "/root/.vp/EVIDENCE.schema.json"


class HarnessError(Exception):
    pass


def load_known(prop):
    if not os.path.exists(KNOWN):
        return []
    with open(KNOWN) as f:
        data = json.load(f)
    return [e for e in data.get("findings", []) if e.get("property") == prop]


class Ctx:
    """Collects what a check run covered and what it found."""

    def __init__(self, prop, tier, seed, level):
        self.prop = prop
        self.tier = tier
        self.seed = seed
        self.level = level
        self.t0 = time.time()
        self.coverage = {}
        self.assumptions = []
        self.samples = []
        self.violations = []       # dicts: signature, what, replay(dict)
        self.guards = {}           # vacuity guards: name -> count
        self.known = load_known(prop)
        self.notes = []

    # ---- recording -------------------------------------------------------------------
    def violation(self, signature, what, replay):
        """Record a violation (deduplicated by signature; first = shortest by convention)."""
        for v in self.violations:
            if v["signature"] == signature:
                v["count"] += 1
                return
        self.violations.append({"signature": signature, "what": what, "replay": replay, "count": 1})

    def guard(self, name, n=1):
        self.guards[name] = self.guards.get(name, 0) + n

    def sample(self, s, limit=6):
        if len(self.samples) < limit:
            self.samples.append(s)

    def add(self, **kw):
        for k, v in kw.items():
            if isinstance(v, (int, float)) and not isinstance(v, bool) and isinstance(self.coverage.get(k), (int, float)):
                self.coverage[k] += v
            else:
                self.coverage[k] = v

    def assume(self, *texts):
        for t in texts:
            if t not in self.assumptions:
                self.assumptions.append(t)

    # ---- finishing -------------------------------------------------------------------
    def _match_known(self, sig):
        for e in self.known:
            if e.get("status") != "known":
                continue
            if re.fullmatch(e["signature"], sig):
                return e
        return None

    def finish(self, require_guards=()):
        os.makedirs(EVIDENCE_DIR, exist_ok=True)
        os.makedirs(REPLAY_DIR, exist_ok=True)
        for g in require_guards:
            if not self.guards.get(g) and not self.violations:
                raise HarnessError("vacuity guard %r is zero: the exploration never reached the situation "
                                   "the property is about" % g)
        new, known_hit = [], {}
        for v in self.violations:
            e = self._match_known(v["signature"])
            if e is not None:
                known_hit.setdefault(e["id"], (e, v))
            else:
                new.append(v)
        for e, v in known_hit.values():
            print("KNOWN-FINDING: property=%s %s [%s] (%d occurrence(s) this run)" %
                  (self.prop, e["what"], e["id"], v["count"]))
        paths = []
        for v in new:
            h = hashlib.sha1(v["signature"].encode()).hexdigest()[:10]
            path = os.path.join(REPLAY_DIR, "%s-%s.json" % (self.prop, h))
            with open(path, "w") as f:
                json.dump({"property": self.prop, "signature": v["signature"], "what": v["what"],
                           "replay": v["replay"]}, f, indent=1, default=repr)
            paths.append(path)
        cov = dict(self.coverage)
        cov.setdefault("samples", self.samples or [{"note": "no sample recorded"}])
        cov["guards"] = dict(self.guards)
        try:
            from mc.explore import AUDIT_STATS
            if AUDIT_STATS["bfs_runs"]:
                cov["fingerprint_merge_audit"] = dict(AUDIT_STATS)
        except Exception:       # noqa
            pass
        cov["known_findings_seen"] = sorted(known_hit)
        if self.notes:
            cov["notes"] = self.notes
        ev = {
            "property_id": self.prop, "tier": self.tier, "seed": self.seed, "level": self.level,
            "coverage": cov, "assumptions": self.assumptions,
            "wall_s": round(time.time() - self.t0, 3), "violations": len(new),
        }
        epath = os.path.join(EVIDENCE_DIR, "%s.json" % self.prop)
        with open(epath, "w") as f:
            json.dump(ev, f, indent=1, default=repr)
        validate_evidence(epath)
        for v, p in zip(new, paths):
            print("VIOLATION property=%s replay=%s" % (self.prop, p))
            print("  what: %s" % v["what"])
            print("  signature: %s (x%d)" % (v["signature"], v["count"]))
        summary = {k: v for k, v in cov.items() if isinstance(v, (int, float, bool))}
        print("%s %s: %s wall=%.1fs violations=%d known=%d" %
              (self.prop, self.tier, json.dumps(summary), ev["wall_s"], len(new), len(known_hit)))
        return 1 if new else 0


def validate_evidence(path):
    code = ("import json,sys,jsonschema;"
            "jsonschema.validate(json.load(open(sys.argv[1])), json.load(open(sys.argv[2])))")
    if not os.path.exists(SCHEMA):
        return
    r = subprocess.run(["python3-vt", "-c", code, path, SCHEMA], capture_output=True, text=True)
    if r.returncode != 0:
        raise HarnessError("evidence file %s does not validate: %s" % (path, r.stderr[-600:]))


def main(prop, level, body, replay=None):
    """Entry point used by props/*.py: body(ctx) explores; replay(ctx, data) replays one artefact."""
    import argparse
    ap = argparse.ArgumentParser()
    ap.add_argument("--tier", default=os.environ.get("VERIF_TIER", "quick"), choices=["quick", "thorough"])
    ap.add_argument("--replay")
    args = ap.parse_args()
    seed = int(os.environ.get("VERIF_SEED", "0") or 0)
    os.environ["VERIF_TIER_HINT"] = args.tier
    ctx = Ctx(prop, args.tier, seed, level)
    try:
        if args.replay:
            with open(args.replay) as f:
                data = json.load(f)
            if replay is None:
                raise HarnessError("no replay function for %s" % prop)
            ok = replay(ctx, data)
            print("REPLAY %s: %s" % (args.replay, "property holds" if ok else "VIOLATION reproduced"))
            sys.exit(0 if ok else 1)
        req = body(ctx) or ()
        sys.exit(ctx.finish(require_guards=req))
    except HarnessError as e:
        print("HARNESS ERROR (%s): %s" % (prop, e))
        sys.exit(2)
    except SystemExit:
        raise
    except BaseException:       # noqa
        traceback.print_exc()
        print("HARNESS ERROR (%s): unexpected exception" % prop)
        sys.exit(2)
