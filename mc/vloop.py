"""Deterministic virtual-time asyncio loop owned by the harness.

No selector, no real time.  The harness pops ``_ready`` / ``_scheduled`` by hand, so the only
nondeterminism left in an MPF process running on this loop is what the harness chooses:
which stimulus comes next and when timers fire relative to it.
"""
import asyncio
import gc
import heapq
from asyncio import base_events, events


class LivelockError(Exception):
    """drain() exceeded its iteration budget at one instant."""


class VLoop(base_events.BaseEventLoop):

    def __init__(self):
        super().__init__()
        self._vtime = 0.0
        self._clock_resolution = 1e-9
        self.exc_log = []          # contexts passed to the exception handler
        self.iterations = 0
        self.set_exception_handler(self._record_exception)
        self._stopped_flag = False

    # -- BaseEventLoop plumbing ------------------------------------------------------------
    def time(self):
        return self._vtime

    def _process_events(self, event_list):   # pragma: no cover - no selector
        pass

    def _write_to_self(self):
        pass

    def stop(self):
        self._stopped_flag = True

    def _record_exception(self, loop, context):
        self.exc_log.append(context)

    def is_running(self):
        # asyncio.Task / futures only consult the *running loop* registry; several MPF paths
        # ask the loop itself.  The harness always executes MPF code "inside" the loop.
        return False

    # -- running ---------------------------------------------------------------------------
    def activate(self):
        """Make this loop the current + running loop of the process."""
        events._set_running_loop(None)
        events.set_event_loop(self)
        events._set_running_loop(self)

    @staticmethod
    def deactivate():
        events._set_running_loop(None)
        events.set_event_loop(None)

    def _move_due(self):
        end_time = self._vtime + self._clock_resolution
        sched = self._scheduled
        while sched:
            handle = sched[0]
            if handle._cancelled:
                heapq.heappop(sched)
                handle._scheduled = False
                continue
            if handle._when >= end_time:
                break
            heapq.heappop(sched)
            handle._scheduled = False
            if handle._when > self._vtime:
                # like asyncio, timers fire up to one clock resolution early; real time would pass that instant at once,
                # frozen virtual time has to be moved there or code that re-arms "not yet due" timers spins for ever
                self._vtime = handle._when
            self._ready.append(handle)

    def iteration(self):
        """One loop iteration at the current instant (same shape as BaseEventLoop._run_once)."""
        self._move_due()
        self.iterations += 1
        ntodo = len(self._ready)
        for _ in range(ntodo):
            handle = self._ready.popleft()
            if handle._cancelled:
                continue
            handle._run()
        handle = None

    def has_ready(self):
        self._move_due()
        return any(not h._cancelled for h in self._ready)

    def drain(self, budget=20000):
        """Run until nothing is runnable at the current instant."""
        n = 0
        while self.has_ready():
            self.iteration()
            n += 1
            if n > budget:
                raise LivelockError("more than %d loop iterations at t=%r" % (budget, self._vtime))
        return n

    def live_timers(self):
        return sorted((h for h in self._scheduled if not h._cancelled), key=lambda h: h._when)

    def next_deadline(self):
        best = None
        for h in self._scheduled:
            if h._cancelled:
                continue
            if best is None or h._when < best:
                best = h._when
        return best

    def deadlines(self):
        return sorted({h._when for h in self._scheduled if not h._cancelled})

    def fire_next(self, late=0.0):
        """Jump to the earliest live deadline (+late) and drain.  Returns False if none."""
        d = self.next_deadline()
        if d is None:
            return False
        t = d + late
        if t > self._vtime:
            self._vtime = t
        self.drain()
        return True

    def advance_to(self, t):
        """Move the clock to t (must not pass a live deadline) without running anything."""
        d = self.next_deadline()
        assert t >= self._vtime, "time goes forward"
        assert d is None or t <= d, "advance_to would skip deadline %r" % d
        self._vtime = t

    def advance(self, delta, late=0.0):
        """Run forward by delta, firing every timer in order (default environment)."""
        end = self._vtime + delta
        self.drain()
        while True:
            d = self.next_deadline()
            if d is None or d > end + 1e-12:
                break
            self.fire_next(late)
        if end > self._vtime:
            self._vtime = end
        self.drain()

    def run_to_rest(self, horizon, max_steps=100000):
        """Fire timers in order until none is left before now+horizon.  Returns steps."""
        end = self._vtime + horizon
        n = 0
        self.drain()
        while True:
            d = self.next_deadline()
            if d is None or d > end:
                return n
            self.fire_next()
            n += 1
            if n > max_steps:
                raise LivelockError("run_to_rest: more than %d timers" % max_steps)

    def run_until_complete(self, future, max_virtual=3600.0):
        """Harness version: drive until future is done (timers fire in order)."""
        fut = asyncio.ensure_future(future, loop=self)
        end = self._vtime + max_virtual
        while not fut.done():
            self.drain()
            if fut.done():
                break
            d = self.next_deadline()
            if d is None or d > end:
                detail = ""
                if self.exc_log:
                    import traceback
                    e = self.exc_log[0].get("exception")
                    detail = " -- first loop exception: %r %s" % (
                        e or self.exc_log[0].get("message"),
                        "".join(traceback.format_exception(type(e), e, e.__traceback__))[-1500:] if e else "")
                raise RuntimeError("run_until_complete: nothing scheduled and future pending" + detail)
            self.fire_next()
        return fut.result()

    def run_forever(self):  # called by MachineController.shutdown
        self.drain()

    def unhandled(self):
        """Exception-handler records, after forcing 'never retrieved' reports."""
        gc.collect(1)
        return list(self.exc_log)

    def close(self):
        if self.is_closed():
            return
        self._ready.clear()
        self._scheduled.clear()
        try:
            super().close()
        except Exception:       # noqa
            self._closed = True
