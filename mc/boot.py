"""Boot a real MachineController from /verif/machines/<name> on the harness loop."""
import asyncio
import copy
import datetime
import logging
import os

from mc import VERIF, bind
from mc.vloop import VLoop

bind()

import mpf.core  # noqa: E402
from mpf.core.clock import ClockBase  # noqa: E402
from mpf.core.config_loader import YamlMultifileConfigLoader  # noqa: E402
from mpf.core.data_manager import DataManager  # noqa: E402
from mpf.core.logging import LogMixin  # noqa: E402
from mpf.core.machine import MachineController  # noqa: E402
from mpf.core.utility_functions import Util  # noqa: E402
from mpf.file_interfaces.yaml_interface import YamlInterface  # noqa: E402

YamlInterface.cache = True          # in-process parse cache only (keyed by file name)
LogMixin.unit_test = True           # MPF raises instead of sys.exit on config errors
logging.basicConfig(level=99)

MACHINES = os.path.join(VERIF, "machines")


class VClock(ClockBase):

    def __init__(self, loop):
        self._vloop = loop
        super().__init__()

    def _create_event_loop(self):
        return self._vloop

    def get_datetime(self):
        return datetime.datetime.fromtimestamp(self.get_time() + 100000)

    serial_factory = None       # callable(url, loop) -> mc.serial.VPort
    ports = None

    async def open_serial_connection(self, limit=None, **kwargs):
        if self.serial_factory is None:
            raise AssertionError("no emulated serial port for %r" % (kwargs,))
        port = self.serial_factory(kwargs["url"], self._vloop)
        if self.ports is None:
            self.ports = {}
        self.ports[kwargs["url"]] = port
        return port.reader, port


class MemDataManager(DataManager):
    """In-memory data manager (what the suite's TestDataManager does)."""

    def __init__(self, data):      # pylint: disable=super-init-not-called
        self.data = data
        self.written_data = None
        self.writes = 0

    def _trigger_save(self):
        self.written_data = copy.deepcopy(self.data)
        self.writes += 1


class _Loader(YamlMultifileConfigLoader):

    def __init__(self, machine_path, configfile, defaults, patches, spec_patches):
        super().__init__(machine_path, configfile, False, False)
        self.defaults = defaults
        self.patches = patches
        self.spec_patches = spec_patches

    def _load_config_spec(self):
        spec = super()._load_config_spec()
        if self.spec_patches:
            spec = Util.dict_merge(spec, self.spec_patches, deepcopy_both=False)
        return spec

    def _load_mpf_machine_config(self, config_spec):
        config = super()._load_mpf_machine_config(config_spec)
        del config["mpf"]["core_modules"]["text_ui"]
        if self.defaults:
            config = Util.dict_merge(self.defaults, config, deepcopy_both=False)
        if self.patches:
            config = Util.dict_merge(config, self.patches, False, deepcopy_both=False)
        return config


class VMachine(MachineController):

    def __init__(self, options, config, clock, mock_data, data_manager_factory=None):
        self._v_clock = clock
        self._v_mock_data = mock_data
        self._v_dm_factory = data_manager_factory
        super().__init__(options, config)

    def create_data_manager(self, config_name):
        if self._v_dm_factory:
            return self._v_dm_factory(self, config_name)
        return MemDataManager(self._v_mock_data.get(config_name, {}))

    def _load_clock(self):
        return self._v_clock

    def _register_plugin_config_players(self):
        pass


class System:
    """A booted machine + its loop.  One System per explored history."""

    def __init__(self, machine_name, config_file="config.yaml", platform="virtual", patches=None,
                 mock_data=None, machine_path=None, early_init=None, data_manager_factory=None,
                 spec_patches=None, boot=True, serial=None):
        self.loop = VLoop()
        self.loop.activate()
        self.clock = VClock(self.loop)
        self.clock.serial_factory = serial
        path = machine_path or os.path.join(MACHINES, machine_name)
        p = {"mpf": {"default_platform_hz": 100, "plugins": []}, "bcp": []}
        if patches:
            p = dict(p)
            for k, v in patches.items():
                if isinstance(v, dict) and isinstance(p.get(k), dict):
                    p[k] = Util.dict_merge(p[k], v)
                else:
                    p[k] = v
        defaults = {"playfields": {"playfield": {"tags": "default", "default_source_device": None}}}
        loader = _Loader(path, [config_file], defaults, p, spec_patches)
        config = loader.load_mpf_config()
        mpfconfig = os.path.abspath(os.path.join(mpf.core.__path__[0], os.pardir, "mpfconfig.yaml"))
        options = {
            "force_platform": platform, "production": False, "mpfconfigfile": mpfconfig,
            "configfile": [config_file], "debug": True, "bcp": False, "no_load_cache": True,
            "platform_integration_test": False, "create_config_cache": False, "text_ui": False,
        }
        self.machine = VMachine(options, config, self.clock, mock_data or {}, data_manager_factory)
        if early_init:
            early_init(self.machine)
        if boot:
            self.boot()

    def boot(self):
        init = asyncio.ensure_future(self.machine.initialize())
        self.loop.run_until_complete(init)
        self.machine.events.process_event_queue()
        self.loop.advance(0.001)

    # -- conveniences --------------------------------------------------------------------
    @property
    def now(self):
        return self.loop.time()

    def post(self, event, **kwargs):
        self.machine.events.post(event, **kwargs)
        self.machine.events.process_event_queue()
        self.loop.drain()

    def errors(self):
        return self.loop.unhandled()

    def close(self):
        """Drop the machine.  No graceful shutdown: nothing outside the process was opened."""
        m = self.machine
        try:
            for task in asyncio.all_tasks(self.loop):
                task.cancel()
            self.loop.exc_log = []
            try:
                self.loop.drain()
            except Exception:       # noqa
                pass
        finally:
            self.loop.close()
            VLoop.deactivate()
            self.machine = None
            del m
