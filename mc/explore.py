"""Exhaustive exploration engines.

* pmap        – exhaustive enumeration of a finite case list over worker processes
* bfs         – explicit-state breadth-first search by replay; a state is the choice history that
                reaches it; children are produced by fork()-snapshots of the live replayed system
                (one replay per expanded state, one fork per transition) or by re-replay
* dbs         – deviation-bounded stateless search (iterative context bounding for an event loop)

A *driver* is an object with
    boot()                 build a fresh real system (+ reference model)
    enabled() -> [choice]  ordered, JSON-able choices enabled in the current state
    step(choice)           execute on the real code and the reference; append to .violations
    fingerprint()          hashable canonical state (only equal states may collide)
    close()
    violations             list of (signature, what) found so far on this path
    stats                  dict name->count (vacuity guards), merged by the engine
"""
import gc
import hashlib
import multiprocessing as mp
import os
import pickle
import sys
import time

NPROC = int(os.environ.get("VERIF_WORKERS", "0") or 0) or min(16, os.cpu_count() or 1)

_FACTORY = None
_OPTS = {}


def _canon(o):
    """0 / 0.0 / -0.0 and float noise below 1e-6 must not separate equal states."""
    if isinstance(o, bool) or o is None or isinstance(o, str):
        return o
    if isinstance(o, (int, float)):
        v = round(float(o), 6)
        return 0.0 if v == 0 else v
    if isinstance(o, (tuple, list)):
        return tuple(_canon(x) for x in o)
    if isinstance(o, dict):
        return tuple(sorted((repr(k), _canon(v)) for k, v in o.items()))
    if isinstance(o, (set, frozenset)):
        return tuple(sorted(repr(_canon(x)) for x in o))
    return repr(o)


def fp_hash(obj):
    return hashlib.blake2b(repr(_canon(obj)).encode(), digest_size=12).hexdigest()


# ------------------------------------------------------------------------------------------
# plain exhaustive map
# ------------------------------------------------------------------------------------------
def _init_worker(factory, opts):
    global _FACTORY, _OPTS
    _FACTORY = factory
    _OPTS = opts
    sys.setrecursionlimit(10000)


def pmap(func, items, chunksize=None, workers=None, init=None, initargs=()):
    """Exhaustively apply func to every item on worker processes; yields results unordered."""
    workers = workers or NPROC
    items = list(items)
    if not items:
        return
    if workers <= 1 or len(items) < 4:
        if init:
            init(*initargs)
        for it in items:
            yield func(it)
        return
    if chunksize is None:
        chunksize = max(1, min(256, len(items) // (workers * 8)))
    with mp.get_context("fork").Pool(workers, initializer=init, initargs=initargs) as pool:
        for r in pool.imap_unordered(func, items, chunksize):
            yield r


# ------------------------------------------------------------------------------------------
# BFS by replay + fork snapshots
# ------------------------------------------------------------------------------------------
def _child_result(d, choice):
    d.step(choice)
    fp = fp_hash(d.fingerprint())
    nxt = len(d.enabled())
    return (choice, fp, list(d.violations), dict(d.stats), nxt, d.observe() if _OPTS.get("observe") else None)


def _make(history):
    """A list of factories = several searches in one pool; the history then starts with ["@", index]."""
    if isinstance(_FACTORY, (list, tuple)):
        return _FACTORY[history[0][1]]()
    return _FACTORY()


def _steps(history):
    if history and isinstance(history[0], (list, tuple)) and len(history[0]) == 2 and history[0][0] == "@":
        return history[1:]
    return history


def _expand(arg):
    """Replay `history`, then execute every enabled choice from that state."""
    history, expect_fp = arg
    d = _make(history)
    d.boot()
    for c in _steps(history):
        d.step(c)
    if expect_fp is not None:
        got = fp_hash(d.fingerprint())
        if got != expect_fp:
            return ("DIVERGED", history, expect_fp, got)
    pre_viol = len(d.violations)
    choices = list(d.enabled())
    out = []
    use_fork = _OPTS.get("fork", True)
    if use_fork and len(choices) > 1:
        # children must not touch (copy-on-write) every object of the parent when their collector runs
        gc.freeze()
    for i, c in enumerate(choices):
        last = i == len(choices) - 1
        if last:
            res = _child_result(d, c)
        elif use_fork:
            r, w = os.pipe()
            pid = os.fork()
            if pid == 0:
                code = 0
                try:
                    os.close(r)
                    try:
                        if hasattr(d, "after_fork"):
                            d.after_fork()      # asyncio's running-loop registry is keyed by pid
                        res = _child_result(d, c)
                    except BaseException as e:      # noqa
                        import traceback
                        res = ("CRASH", c, repr(e), traceback.format_exc())
                    with os.fdopen(w, "wb") as f:
                        pickle.dump(res, f)
                except BaseException:       # noqa
                    code = 3
                finally:
                    os._exit(code)
            os.close(w)
            with os.fdopen(r, "rb") as f:
                data = f.read()
            os.waitpid(pid, 0)
            if not data:
                return ("CRASH", history + [c], "child died", "")
            res = pickle.loads(data)
            if res and res[0] == "CRASH":
                return ("CRASH", history + [c], res[2], res[3])
        else:
            d2 = _make(history)
            d2.boot()
            for h in _steps(history):
                d2.step(h)
            res = _child_result(d2, c)
            d2.close()
        out.append(res)
    gc.unfreeze()
    try:
        d.close()
    except Exception:       # noqa
        pass
    return ("OK", history, pre_viol, out)


class BfsResult:
    def __init__(self):
        self.states = 0
        self.transitions = 0
        self.max_depth = 0
        self.frontier_emptied = False
        self.violations = {}        # signature -> (what, history)
        self.stats = {}
        self.samples = []
        self.levels = []
        self.capped = False
        self.merges = 0
        self.audited = 0


AUDIT_EVERY = int(os.environ.get("VERIF_AUDIT_EVERY", "0") or 0)
AUDIT_MAX = int(os.environ.get("VERIF_AUDIT_MAX", "0") or 0)
AUDIT_STATS = {"bfs_runs": 0, "merged_transitions": 0, "merge_audits": 0}


def bfs(factory, depth, ctx=None, workers=None, fork=True, max_states=None, observe=False,
        time_budget=None, label="", audit_every=None, audit_max=400, continue_past=None):
    """Level-synchronous BFS to `depth` with fingerprint de-duplication.

    A state reached by a violating step is not expanded, except when every new violation's signature matches
    `continue_past` (a regex: the recorded known findings), so that a known defect does not hide what lies behind it.

    Merge audit: every `audit_every`-th time a state is merged into an already known fingerprint, both histories
    are expanded one more level and must produce the same children (fingerprints and new violations); a mismatch
    means the fingerprint omits a field that matters and is a harness error, never a violation.
    """
    workers = workers or NPROC
    if audit_every is None:
        audit_every = AUDIT_EVERY or (7 if os.environ.get("VERIF_TIER_HINT") == "thorough" else 25)
    res = BfsResult()
    if AUDIT_MAX:
        audit_max = AUDIT_MAX
    import re as _re
    cont = _re.compile(continue_past) if continue_past else None
    rep = {}            # seen key -> representative history
    audits = []
    merges = 0
    opts = {"fork": fork, "observe": observe}
    t0 = time.time()
    # initial state (computed in a worker so the master never holds a live system)
    with mp.get_context("fork").Pool(workers, initializer=_init_worker, initargs=(factory, opts)) as pool:
        if isinstance(factory, (list, tuple)):
            frontier = []
            seen = {}
            for i in range(len(factory)):
                h0 = [["@", i]]
                fp = pool.apply(_root_fp, (h0,))
                # states of different searches never merge
                seen[(i, fp)] = 0
                frontier.append((h0, fp))
            res.states = len(frontier)
            multi = True
        else:
            root = pool.apply(_root_fp)
            seen = {root: 0}
            frontier = [([], root)]
            res.states = 1
            multi = False
        for level in range(depth):
            if not frontier:
                res.frontier_emptied = True
                break
            nxt = []
            chunk = max(1, min(16, len(frontier) // (workers * 4)))
            for r in pool.imap_unordered(_expand, frontier, chunk):
                if r[0] == "DIVERGED":
                    from mc.runner import HarnessError
                    raise HarnessError("nondeterministic replay of %r: fingerprint %s != %s" % (r[1], r[3], r[2]))
                if r[0] == "CRASH":
                    from mc.runner import HarnessError
                    raise HarnessError("driver crashed on %r: %s\n%s" % (r[1], r[2], r[3]))
                _, history, pre, children = r
                for (choice, fp, viol, stats, nchoices, obs) in children:
                    res.transitions += 1
                    for k, v in stats.items():
                        res.stats[k] = max(res.stats.get(k, 0), v) if k.startswith("max_") else res.stats.get(k, 0) + v
                    h2 = history + [choice]
                    for sig, what in viol[pre:]:
                        old = res.violations.get(sig)
                        if old is None or (len(h2), repr(h2)) < (len(old[1]), repr(old[1])):
                            res.violations[sig] = (what, h2)
                    if obs is not None and len(res.samples) < 5 and level >= min(2, depth - 1):
                        res.samples.append({"history": h2, "observed": obs})
                    key = (history[0][1], fp) if multi else fp
                    if key in seen and not viol[pre:]:
                        merges += 1
                        if audit_every and merges % audit_every == 0 and len(audits) < audit_max and \
                                key in rep and rep[key] != h2 and level + 1 < depth:
                            audits.append((rep[key], h2, fp))
                    if key not in seen:
                        rep[key] = h2
                        seen[key] = level + 1
                        res.states += 1
                        res.max_depth = level + 1
                        if not [v for v in viol[pre:] if not (cont and cont.search(v[0]))]:
                            nxt.append((h2, fp))    # do not expand beyond a (not yet recorded) violating step
            res.levels.append(len(nxt))
            frontier = nxt
            if max_states and res.states > max_states:
                res.capped = True
                break
            if time_budget and time.time() - t0 > time_budget:
                res.capped = True
                break
        else:
            res.frontier_emptied = not frontier
        # ---- merge audit ----
        res.merges = merges
        res.audited = 0
        AUDIT_STATS["bfs_runs"] += 1
        AUDIT_STATS["merged_transitions"] += merges
        AUDIT_STATS["merge_audits"] += len(audits)
        if audits:
            jobs = []
            for a, b, fp in audits:
                jobs.append((a, fp))
                jobs.append((b, fp))
            out = pool.map(_expand, jobs, max(1, len(jobs) // (workers * 4)))
            for i in range(0, len(out), 2):
                ra, rb = out[i], out[i + 1]
                if ra[0] != "OK" or rb[0] != "OK":
                    from mc.runner import HarnessError
                    raise HarnessError("merge audit: replay failed for %r / %r: %r %r" % (jobs[i][0], jobs[i + 1][0],
                                                                                       ra[:3], rb[:3]))
                ca = [(repr(c[0]), c[1], tuple(sorted(v[0] for v in c[2][ra[2]:]))) for c in ra[3]]
                cb = [(repr(c[0]), c[1], tuple(sorted(v[0] for v in c[2][rb[2]:]))) for c in rb[3]]
                res.audited += 1
                if ca != cb:
                    diff = [(x, y) for x, y in zip(ca, cb) if x != y][:2] or [(len(ca), len(cb))]
                    from mc.runner import HarnessError
                    raise HarnessError("merge audit: histories %r and %r have the same fingerprint but different "
                                       "successors %r -- the fingerprint omits state that matters" %
                                       (jobs[i][0], jobs[i + 1][0], diff))
    return res


def _root_fp(history=()):
    d = _make(list(history))
    d.boot()
    fp = fp_hash(d.fingerprint())
    d.close()
    return fp


# ------------------------------------------------------------------------------------------
# deviation-bounded stateless search
# ------------------------------------------------------------------------------------------
def _run_prefix(arg):
    """Run one complete execution: follow `prefix` (list of choice indices), then index 0.

    The driver must provide: boot(), enabled() -> list of (choice, cost) with the default first
    (cost 0), step(choice), done() -> bool, finish() (run to rest + final oracle), violations.
    Returns the points (number of alternatives and their costs) after the prefix.
    """
    prefix, horizon = arg
    d = _FACTORY()
    d.boot()
    taken = []
    points = []
    visited = set()
    i = 0
    while not d.done() and i < horizon:
        en = d.enabled()
        if not en:
            break
        flip = False
        if i < len(prefix):
            idx = prefix[i]
            if idx == len(en) and hasattr(d, "races_last_step"):
                flip = True         # the default choice, with the first simultaneous-completion race in it resolved the other way
            elif idx >= len(en):
                return ("DIVERGED", prefix, i, len(en))
        else:
            idx = 0
            points.append((i, [c for (_, c) in en]))
        choice = ["~", en[0][0]] if flip else en[idx][0]
        taken.append(choice)
        d.step(choice)
        if hasattr(d, "races_last_step"):
            if flip and not d.races_last_step():
                return ("DIVERGED", prefix, i, -1)
            if i >= len(prefix) and d.races_last_step():
                points[-1][1].append(1)
        if hasattr(d, "state_key"):
            visited.add(fp_hash(d.state_key()))
        i += 1
    d.finish()
    out = ("OK", prefix, taken, points, list(d.violations), dict(d.stats), d.outcome(), visited)
    d.close()
    return out


class DbsResult:
    def __init__(self):
        self.executions = 0
        self.bound_completed = -1
        self.violations = {}
        self.stats = {}
        self.outcomes = {}
        self.samples = []
        self.capped = False
        self.steps = 0
        self.state_set = set()


def dbs(factory, bound, horizon, workers=None, max_executions=None, time_budget=None):
    """All executions with at most `bound` deviation cost, every one run to completion."""
    workers = workers or NPROC
    res = DbsResult()
    t0 = time.time()
    with mp.get_context("fork").Pool(workers, initializer=_init_worker, initargs=(factory, {})) as pool:
        # items: (prefix, cost_used)
        wave = [((), 0)]
        per_bound = {0: [((), 0)]}
        for b in range(bound + 1):
            todo = per_bound.get(b, [])
            while todo:
                args = [(list(p), horizon) for p, _ in todo]
                costs = {tuple(p): c for p, c in todo}
                todo = []
                for r in pool.imap_unordered(_run_prefix, args, max(1, min(8, len(args) // (workers * 4)))):
                    if r[0] == "DIVERGED":
                        from mc.runner import HarnessError
                        raise HarnessError("replay of prefix %r diverged at %d (%d enabled)" % (r[1], r[2], r[3]))
                    _, prefix, taken, points, viol, stats, outcome, visited = r
                    res.state_set |= visited
                    res.executions += 1
                    res.steps += len(taken)
                    used = costs[tuple(prefix)]
                    for k, v in stats.items():
                        res.stats[k] = res.stats.get(k, 0) + v
                    res.outcomes[outcome] = res.outcomes.get(outcome, 0) + 1
                    for sig, what in viol:
                        if sig not in res.violations:
                            res.violations[sig] = (what, taken)
                    if len(res.samples) < 5 and used == b:
                        res.samples.append({"choices": taken, "outcome": outcome, "deviation_cost": used})
                    full = list(prefix) + [0] * (len(taken) - len(prefix))
                    for (i, alts) in points:
                        for a in range(1, len(alts)):
                            c = used + alts[a]
                            if c > bound:
                                continue
                            p = tuple(full[:i] + [a])
                            if c == b:
                                todo.append((p, c))
                            else:
                                per_bound.setdefault(c, []).append((p, c))
                    if max_executions and res.executions >= max_executions:
                        res.capped = True
                    if time_budget and time.time() - t0 > time_budget:
                        res.capped = True
                if res.capped:
                    return res
            res.bound_completed = b
    return res
