"""In-memory file system implementing exactly what MPF's save path uses, with an operation log.

Every mutating operation is appended to `log`; `states()` replays every prefix of the log (including
prefixes that end inside a write) to enumerate the disk contents a process crash could leave behind.
One operation may be made to fail (OSError) by setting `fail_at`.
"""
import io
import os as _os


class MemFS:
    def __init__(self, sched=None, fail_at=None):
        self.files = {}
        self.dirs = {"/"}
        self.log = []           # ("open_w", path) ("write", path, data) ("close", path) ("replace", src, dst) ("mkdir", p)
        self.sched = sched
        self.fail_at = fail_at
        self.opcount = 0
        self.failed = None

    def _op(self, what):
        if self.sched is not None:
            self.sched.point("fs:%s" % what)
        n = self.opcount
        self.opcount += 1
        if self.fail_at is not None and n == self.fail_at:
            self.failed = what
            raise OSError(5, "injected I/O error at %s" % what)

    # ---- the `open` used by yaml_interface ------------------------------------------------------
    def open(self, path, mode="r", encoding=None, **kwargs):
        fs = self
        if "w" in mode:
            self._op("open_w")
            self.files[path] = ""
            self.log.append(("open_w", path))

            class W:
                encoding = "utf-8"

                def write(self_inner, data):
                    if isinstance(data, bytes):
                        data = data.decode("utf-8")
                    fs._op("write")
                    fs.files[path] = fs.files.get(path, "") + data
                    fs.log.append(("write", path, data))
                    return len(data)

                def flush(self_inner):
                    pass

                def close(self_inner):
                    fs._op("close")
                    fs.log.append(("close", path))

                def __enter__(self_inner):
                    return self_inner

                def __exit__(self_inner, *a):
                    if a[0] is None:
                        self_inner.close()
                    return False
            return W()
        if path not in self.files:
            raise FileNotFoundError(path)
        return io.StringIO(self.files[path])

    # ---- os replacement -------------------------------------------------------------------------
    def os_module(self):
        fs = self

        class Path:
            dirname = staticmethod(_os.path.dirname)
            basename = staticmethod(_os.path.basename)
            splitext = staticmethod(_os.path.splitext)
            join = staticmethod(_os.path.join)
            abspath = staticmethod(_os.path.abspath)

            @staticmethod
            def isfile(p):
                return p in fs.files

            @staticmethod
            def exists(p):
                return p in fs.files or p in fs.dirs

        class OS:
            path = Path
            sep = "/"

            @staticmethod
            def makedirs(p, *a, **k):
                fs.dirs.add(p)

            @staticmethod
            def replace(src, dst):
                fs._op("replace")
                if src not in fs.files:
                    raise FileNotFoundError(src)
                fs.files[dst] = fs.files.pop(src)
                fs.log.append(("replace", src, dst))
        return OS

    # ---- crash states ---------------------------------------------------------------------------
    def states(self):
        """Disk contents after every prefix of the log; writes are additionally cut at first byte / all but last."""
        files = {}
        yield dict(files), "start"
        for i, op in enumerate(self.log):
            if op[0] == "open_w":
                files[op[1]] = ""
            elif op[0] == "write":
                data = op[2]
                base = files.get(op[1], "")
                if len(data) > 1:
                    for cut in (1, len(data) - 1):
                        torn = dict(files)
                        torn[op[1]] = base + data[:cut]
                        yield torn, "inside write #%d" % i
                files[op[1]] = base + data
            elif op[0] == "replace":
                files[op[2]] = files.pop(op[1])
            yield dict(files), "after %s #%d" % (op[0], i)
