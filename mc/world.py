"""A small physical pinball world for ball-device checks.

The world owns the balls.  Each ball is at rest in a device, loose on the playfield, or in transit
(a loop timer will make it arrive).  Switch states are derived from ball positions and reported
through the switch controller; coil pulses are observed at the platform driver objects.  What a
pulse does to the ball is NOT decided here: the pulse is queued in `kicks` and the exploration
chooses the outcome (`resolve`).  Only physically possible moves exist: a ball is in exactly one
place, a device holds at most as many balls as it has room for.
"""


class World:

    def __init__(self, sysm, spec):
        self.sys = sysm
        self.m = sysm.machine
        self.loop = sysm.loop
        self.spec = spec
        self.dev = spec["devices"]          # name -> dict(switches=[...], entrance=None, capacity=n, coil=..., target=...)
        self.at = {d: 0 for d in self.dev}
        for d, n in spec["balls"].items():
            self.at[d] = n
        self.total = sum(self.at.values())
        self.loose = 0
        self.transit = []                   # dicts: src, dst, when, handle
        self.kicks = []                     # devices whose coil pulsed and whose ball has not reacted yet
        self.violations = []                # (sig, what) found at the coil seam
        self.log = []
        self.pulses = {d: 0 for d in self.dev}
        self.failed_kicks = {d: 0 for d in self.dev}
        self.ready_room = {}                # (target, source) -> physical room of target when it last told source "ready"
        self.overflowed = False             # a ball reached a device that was physically full (outside what switches can tell)
        for d, cfg in self.dev.items():
            if cfg.get("coil"):
                self._hook(d, cfg["coil"])

    # ---- coil seam --------------------------------------------------------------------------
    def _hook(self, dev, coil):
        drv = self.m.coils[coil].hw_driver
        orig = drv.pulse

        def pulse(pulse_settings):
            self.on_pulse(dev)
            return orig(pulse_settings)
        drv.pulse = pulse

    def capacity(self, dev):
        cfg = self.dev[dev]
        return cfg.get("capacity") or len(cfg.get("switches") or [])

    def heading_to(self, dev):
        """Balls on the way to `dev` that the sender may still expect (its eject timeout has not expired)."""
        now = self.loop.time()
        return len([t for t in self.transit if t["dst"] == dev and now < t["expected_by"] - 1e-6])

    def note_ready(self, tgt, src):
        if tgt in self.dev:
            self.ready_room[(tgt, src)] = self.capacity(tgt) - self.at[tgt] - self.heading_to(tgt)

    def on_pulse(self, dev):
        self.pulses[dev] += 1
        self.log.append(("pulse", round(self.loop.time(), 3), dev, self.at[dev]))
        tgt = self.dev[dev]["target"]
        if self.at[dev] > 0 and tgt != "playfield":
            if self.at[tgt] + self.heading_to(tgt) >= self.capacity(tgt):
                room = self.ready_room.get((tgt, dev))
                kind = "no-ready-answer" if room is None else "no-room-at-ready" if room <= 0 else "room-taken-after-ready"
                self.violations.append(("fired-at-full-device:%s->%s:%s" % (dev, tgt, kind),
                                        "coil of %s fired at t=%.3f towards %s, which physically holds %d ball(s) with %d more on "
                                        "the way and has room for %d (room when %s was last told 'ready': %s)" %
                                        (dev, self.loop.time(), tgt, self.at[tgt], self.heading_to(tgt), self.capacity(tgt), dev, room)))
        if self.at[dev] > 0 and dev not in self.kicks:
            self.kicks.append(dev)

    # ---- switches ---------------------------------------------------------------------------
    def _set(self, switch, state):
        if self.m.switches[switch].state != state:
            self.m.switch_controller.process_switch(switch, state, True)

    def _sync(self, dev):
        sws = self.dev[dev].get("switches") or []
        n = self.at[dev]
        want = [1 if i < n else 0 for i in range(len(sws))]
        # balls leaving: top switch opens first; balls arriving: next free switch closes
        for i in reversed(range(len(sws))):
            if not want[i]:
                self._set(sws[i], 0)
        for i in range(len(sws)):
            if want[i]:
                self._set(sws[i], 1)

    def _pulse_switch(self, switch):
        self.m.switch_controller.process_switch(switch, 1, True)
        self.m.switch_controller.process_switch(switch, 0, True)

    # ---- outcomes of a pulse -----------------------------------------------------------------
    def outcomes(self, dev):
        # "late": the ball reaches the target's switch 0.2 s before the source's eject timeout, i.e. it is still inside the
        # target's count-stability window when the source gives up waiting for the confirmation
        out = ["ok", "silent", "fallback", "none", "slow"] if self.dev[dev]["target"] == "playfield" else ["ok", "fallback", "none", "slow", "late"]
        if not self.dev[dev].get("switches"):
            out.remove("none")      # a device without ball switches cannot see that its ball stayed: not judged
        return out

    def resolve(self, outcome):
        dev = self.kicks.pop(0)
        self.log.append(("kick", round(self.loop.time(), 3), dev, outcome))
        self.leave(dev, outcome)

    def plunge(self, dev, outcome):
        """The player launches the ball of a mechanical plunger (no coil involved)."""
        assert self.at[dev] > 0
        self.log.append(("plunge", round(self.loop.time(), 3), dev, outcome))
        self.leave(dev, outcome)

    def leave(self, dev, outcome):
        cfg = self.dev[dev]
        if outcome == "none" or self.at[dev] == 0:
            self.failed_kicks[dev] += 1
            return
        self.at[dev] -= 1
        self._sync(dev)
        if outcome == "fallback":
            self.failed_kicks[dev] += 1
            self._travel(dev, dev, self.spec.get("fallback_time", 0.6), None)
            return
        self.failed_kicks[dev] = 0
        tgt = cfg["target"]
        fast = self.spec["pf_time"] if tgt == "playfield" else self.spec["transit_time"]
        t = fast if outcome in ("ok", "silent") else cfg["eject_timeout"] - 0.2 if outcome == "late" else cfg["eject_timeout"] + 1.0
        self._travel(dev, tgt, t, "silent" if outcome == "silent" else "hit")

    def _travel(self, src, dst, secs, kind):
        rec = {"src": src, "dst": dst, "when": self.loop.time() + secs, "kind": kind,
               "expected_by": self.loop.time() + self.dev[src]["eject_timeout"]}
        rec["handle"] = self.loop.call_at(rec["when"], self._arrive, rec)
        self.transit.append(rec)

    def _arrive(self, rec):
        self.transit.remove(rec)
        dst = rec["dst"]
        self.log.append(("arrive", round(self.loop.time(), 3), rec["src"], dst))
        if dst == "playfield":
            self.loose += 1
            if rec["kind"] == "hit":
                self._pulse_switch(self.spec["pf_switch"])
            return
        self.enter(dst)

    def enter(self, dev):
        """A ball physically reaches `dev` (from a transit or from the playfield)."""
        if self.at[dev] >= self.capacity(dev):
            # no room: the ball bounces back on to the playfield
            self.loose += 1
            if self.dev[dev].get("entrance") and self.dev[dev].get("shot"):
                # a playfield shot at a full entrance-counted device: the ball rolls over the entrance switch and back out
                self._pulse_switch(self.dev[dev]["entrance"])
                self.log.append(("rolled-back", round(self.loop.time(), 3), dev))
                return
            self.overflowed = True
            self.log.append(("bounce", round(self.loop.time(), 3), dev))
            return
        self.at[dev] += 1
        cfg = self.dev[dev]
        if cfg.get("entrance"):
            self._pulse_switch(cfg["entrance"])
        self._sync(dev)

    # ---- loose ball moves ---------------------------------------------------------------------
    def drain(self):
        assert self.loose > 0
        self.loose -= 1
        self.log.append(("drain", round(self.loop.time(), 3)))
        self.enter(self.spec["drain"])

    def shoot(self, dev):
        assert self.loose > 0
        self.loose -= 1
        self.log.append(("shot", round(self.loop.time(), 3), dev))
        self.enter(dev)

    def pf_hit(self):
        assert self.loose > 0
        self._pulse_switch(self.spec["pf_switch"])

    # ---- observations ---------------------------------------------------------------------------
    def quiet(self):
        return not self.kicks and not self.transit

    def key(self, now):
        return (tuple(sorted(self.at.items())), self.loose, tuple(self.kicks),
                tuple(sorted((t["src"], t["dst"], round(t["when"] - now, 6), t["kind"]) for t in self.transit)))

    def describe(self):
        return {"at": dict(self.at), "loose": self.loose, "transit": [(t["src"], t["dst"]) for t in self.transit], "kicks": list(self.kicks)}
