"""Cooperative scheduler for real Python threads (baton passing) with virtual time.

Every controlled thread runs only while it holds the baton.  Scheduling points are the controlled
primitives (Event set/clear/wait/is_set, sleep, file-system operations, thread start/exit) and the
`line` trace events inside the files listed in `trace_files`.  At each point the scheduler consults
the choice sequence of the current execution: choice 0 = the canonical successor (the running
thread if it is still enabled, else the lowest enabled id), choice k = the k-th other enabled
thread.  Switching away from a thread that could continue costs one preemption.
"""
import sys
import threading


class Deadlock(Exception):
    pass


class Horizon(Exception):
    pass


class _Abort(BaseException):
    pass


class VEvent:
    """threading.Event replacement."""

    def __init__(self, sched, name="event"):
        self.sched = sched
        self.flag = False
        self.name = name

    def is_set(self):
        self.sched.point("is_set:%s" % self.name)
        return self.flag

    def set(self):
        self.sched.point("set:%s" % self.name)
        self.flag = True

    def clear(self):
        self.sched.point("clear:%s" % self.name)
        self.flag = False

    def wait(self, timeout=None):
        s = self.sched
        s.point("wait:%s" % self.name)
        if self.flag:
            return True
        me = s.current
        deadline = None if timeout is None else s.now + timeout
        me.blocked = (self, deadline)
        s.block()
        me.blocked = None
        return self.flag


class VLock:
    """threading.Lock replacement (non-reentrant)."""

    def __init__(self, sched, name="lock"):
        self.sched = sched
        self.flag = True            # "free" (so that blocked threads become enabled like on an Event)
        self.name = name

    def acquire(self, blocking=True, timeout=-1):
        s = self.sched
        s.point("acquire:%s" % self.name)
        while not self.flag:
            if not blocking:
                return False
            me = s.current
            me.blocked = (self, None)
            s.block()
            me.blocked = None
        self.flag = False
        return True

    def release(self):
        self.sched.point("release:%s" % self.name)
        self.flag = True

    def locked(self):
        return not self.flag

    def __enter__(self):
        self.acquire()
        return self

    def __exit__(self, *a):
        self.release()
        return False


class _T:
    def __init__(self, tid, fn, name):
        self.tid = tid
        self.fn = fn
        self.name = name
        self.sem = threading.Semaphore(0)
        self.done = False
        self.blocked = None         # (VEvent or None, deadline or None)
        self.thread = None
        self.exc = None


class Sched:
    def __init__(self, prefix, trace_files=(), max_points=4000):
        self.prefix = list(prefix)
        self.trace_files = tuple(trace_files)
        self.threads = []
        self.current = None
        self.now = 0.0
        self.points = []            # per point: (n_enabled, running_still_enabled)
        self.choices = []
        self.preemptions = 0
        self.max_points = max_points
        self.aborted = False
        self.log = []
        self.main_done = threading.Semaphore(0)
        self.failure = None
        self.steps = 0
        self.max_steps = max_points * 4

    # ---- thread management -----------------------------------------------------------------
    def spawn(self, fn, name):
        t = _T(len(self.threads), fn, name)
        self.threads.append(t)

        def run():
            t.sem.acquire()
            if self.aborted:
                t.done = True
                return
            if self.trace_files:
                sys.settrace(self._trace)
            try:
                fn()
            except _Abort:
                pass
            except BaseException as e:      # noqa
                t.exc = e
            finally:
                sys.settrace(None)
                t.done = True
                if not self.aborted:
                    try:
                        self._switch(exiting=True)
                    except _Abort:
                        pass
        t.thread = threading.Thread(target=run, daemon=True)
        t.thread.start()
        return t

    def _trace(self, frame, event, arg):
        fn = frame.f_code.co_filename
        if not fn.endswith(self.trace_files):
            return None

        def local(frame, event, arg):
            if event == "line" and not self.aborted:
                self.point("line:%s:%d" % (frame.f_code.co_name, frame.f_lineno))
            return local
        return local

    def enabled(self):
        out = []
        for t in self.threads:
            if t.done:
                continue
            if t.blocked is not None:
                ev, deadline = t.blocked
                if ev is not None and ev.flag:
                    out.append(t)
                elif deadline is not None and deadline <= self.now + 1e-9:
                    out.append(t)
                continue
            out.append(t)
        return out

    # ---- scheduling points ------------------------------------------------------------------
    def point(self, what):
        """A scheduling point inside the running thread."""
        if self.aborted:
            raise _Abort()
        self._switch()

    def block(self):
        self._switch(blocking=True)

    def sleep(self, secs):
        me = self.current
        self.point("sleep")
        me.blocked = (None, self.now + secs)
        self.block()
        me.blocked = None

    def _advance_time(self):
        waits = [t.blocked[1] for t in self.threads if not t.done and t.blocked is not None and t.blocked[1] is not None]
        if not waits:
            return False
        self.now = max(self.now, min(waits))
        return True

    def _switch(self, blocking=False, exiting=False):
        me = self.current
        while True:
            en = self.enabled()
            if en:
                break
            if not self._advance_time():
                if all(t.done for t in self.threads):
                    self._finish()
                    return
                self.failure = Deadlock("no runnable thread: %r" % [(t.name, t.blocked is not None) for t in self.threads if not t.done])
                self._finish()
                raise _Abort()
        self.steps += 1
        if len(self.points) >= self.max_points or self.steps > self.max_steps:
            self.failure = Horizon("more than %d scheduling points (spinning?)" % self.max_points)
            self._finish()
            raise _Abort()
        still = (not blocking and not exiting and me is not None and me in en)
        order = ([me] if still else []) + [t for t in en if t is not me or not still]
        # canonical order: running thread first (if enabled), then ascending ids
        order = ([me] if still else []) + sorted([t for t in en if not (still and t is me)], key=lambda t: t.tid)
        idx = 0
        i = len(self.choices)
        if len(order) > 1:
            if i < len(self.prefix):
                idx = self.prefix[i]
                if idx >= len(order):
                    self.failure = RuntimeError("replay diverged at point %d: choice %d of %d" % (i, idx, len(order)))
                    self._finish()
                    raise _Abort()
            self.points.append((len(order), still))
            self.choices.append(idx)
            if still and idx != 0:
                self.preemptions += 1
        nxt = order[idx]
        if nxt is me and not exiting:
            return
        self.current = nxt
        nxt.sem.release()
        if exiting:
            return
        me.sem.acquire()
        if self.aborted:
            raise _Abort()

    def _finish(self):
        self.aborted = True
        for t in self.threads:
            t.sem.release()
        self.main_done.release()

    # ---- running ----------------------------------------------------------------------------
    def run(self, main_fn):
        """Run main_fn as thread 0 together with whatever it spawns, to completion."""
        m = self.spawn(main_fn, "main")
        self.current = m
        m.sem.release()
        self.main_done.acquire()
        for t in self.threads:
            t.thread.join(timeout=2.0)
        return self
