"""Start games without ball devices (what the suite's MpfFakeGameTestCase does)."""


def install(machine, num_balls_known=3):
    def _add_ball(**kwargs):
        machine.playfield.balls += 1
        machine.playfield.available_balls += 1
        return True
    machine.playfield.add_ball = _add_ball
    machine.ball_controller.num_balls_known = num_balls_known


def press_start(sysm, switch="s_start"):
    sc = sysm.machine.switch_controller
    sc.process_switch(switch, 1, logical=True)
    sysm.loop.drain()
    sc.process_switch(switch, 0, logical=True)
    sysm.loop.drain()


def drain_one(sysm):
    m = sysm.machine
    fut = m.events.post_relay_async("ball_drain", balls=1)
    sysm.loop.drain()
    res = fut.result() if fut.done() else {"balls": 0}
    m.playfield.balls -= res.get("balls", 0)
    m.playfield.available_balls -= res.get("balls", 0)
    sysm.loop.drain()
    return res


def end_game(sysm, settle=0.05):
    """End the running game and take the (fake) balls off the playfield, as MpfFakeGameTestCase.stop_game does."""
    m = sysm.machine
    if m.game:
        m.game.end_game()
    sysm.loop.advance(settle)
    m.playfield.balls = 0
    m.playfield.available_balls = 0
    sysm.loop.drain()
