"""Base class for BFS drivers over a booted machine: time choices, error capture, fingerprints."""
import asyncio
import os

from mc.boot import System

LATE = 0.05     # lateness injected by the T+ choice (seconds)


def r6(x):
    # times here are sums of halves and quarters: x often sits exactly on a rounding boundary (…5e-7) give or take 1e-16,
    # so nudge it off the boundary to make equal instants round equally
    return round(x + 1e-9, 6)


def simple_state(obj, exclude=(), now=None, depth=1):
    """Fingerprint helper: the plainly-valued attributes (slots and __dict__) of an implementation object.

    Putting the implementation's own state into the fingerprint only makes it finer: two histories that the
    reference model cannot tell apart are still kept separate when the implementation remembers something
    different about them (which is exactly where hidden-state defects live).
    """
    names = set()
    for klass in type(obj).__mro__:
        names.update(getattr(klass, "__slots__", ()) or ())
    names.update(getattr(obj, "__dict__", {}).keys())
    out = []
    for n in sorted(names):
        if n in exclude or n.startswith("__") or n in ("machine", "log", "config", "platform", "hw_driver", "mode", "player"):
            continue
        try:
            v = getattr(obj, n)
        except Exception:       # noqa
            continue
        out.append((n, _simple(v, now, depth)))
    return tuple(out)


def _simple(v, now, depth):
    if v is None or isinstance(v, (bool, int, str)):
        return v
    if isinstance(v, float):
        return r6(v - now) if (now is not None and abs(v - now) < 1000 and v >= 1e-3 - 1e-12) else r6(v)
    if isinstance(v, (list, tuple)) and len(v) <= 8 and depth > 0:
        return tuple(_simple(x, now, depth - 1) for x in v)
    if isinstance(v, (set, frozenset)) and len(v) <= 8 and depth > 0:
        return tuple(sorted(repr(_simple(x, now, depth - 1)) for x in v))
    if isinstance(v, dict) and len(v) <= 8 and depth > 0:
        return tuple(sorted((repr(k), repr(_simple(x, now, depth - 1))) for k, x in v.items()))
    if isinstance(v, asyncio.Future):
        return "future:" + ("done" if v.done() else "pending")
    if isinstance(v, asyncio.Event):
        return "event:" + ("set" if v.is_set() else "clear")
    if isinstance(v, (list, tuple, set, frozenset, dict)):
        return "%s[%d]" % (type(v).__name__, len(v))
    return type(v).__name__


class MachineDriver:
    """Subclasses define machine_name, ops(), do_op(), reference + oracle."""

    machine_name = "null"
    config_file = "config.yaml"
    platform = "virtual"
    patches = None
    late = LATE
    offer_late = False      # T+
    offer_hold = False      # H (advance to the midpoint before the next deadline)
    time_horizon = None     # do not offer T when the next deadline is further than this

    def __init__(self):
        self.sys = None
        self.violations = []
        self.stats = {}
        self.log = []

    # -- lifecycle --------------------------------------------------------------------------
    def boot(self):
        self.sys = System(self.machine_name, self.config_file, self.platform, patches=self.patches,
                          early_init=self.early_init)
        self.m = self.sys.machine
        self.loop = self.sys.loop
        self.t0 = self.loop.time()
        self.setup()
        self.loop.drain()
        self.check_errors("boot")

    def after_fork(self):
        self.loop.activate()

    def early_init(self, machine):
        pass

    def setup(self):
        pass

    def close(self):
        if self.sys:
            self.sys.close()
            self.sys = None

    # -- choices ----------------------------------------------------------------------------
    def enabled(self):
        ch = list(self.ops())
        d = self.loop.next_deadline()
        if d is not None and (self.time_horizon is None or d - self.loop.time() <= self.time_horizon):
            ch.append("T")
            if self.offer_late:
                ch.append("T+")
            if self.offer_hold and d - self.loop.time() > 0.002:
                ch.append("H")
        return ch

    def step(self, choice):
        from mc.vloop import LivelockError
        try:
            self._step(choice)
        except LivelockError as e:
            self.violate("livelock", "the loop never becomes idle after %r: %s" % (choice, e))
            self.loop._ready.clear()

    def expect_timer_by(self, deadline, what="pending deadline"):
        """Oracle helper: something the reference expects at `deadline` needs a live loop timer at or before it."""
        nd = self.loop.next_deadline()
        if nd is None or nd > deadline + 1e-6:
            self.violate("no-timer", "%s at t=%.3f has no loop timer at or before it (next timer: %s)" %
                         (what, deadline - self.t0, None if nd is None else round(nd - self.t0, 3)))

    def _step(self, choice):
        from mc.vloop import LivelockError
        self.log.append(choice)
        if choice == "T":
            self.loop.fire_next()
            self.after_time()
        elif choice == "T+":
            self.loop.fire_next(self.late)
            self.after_time()
        elif choice == "H":
            d = self.loop.next_deadline()
            now = self.loop.time()
            self.loop.advance_to(now + (d - now) / 2.0)
            self.after_time()
        else:
            try:
                self.do_op(choice)
                self.m.events.process_event_queue()
                self.loop.drain()
            except LivelockError:
                raise
            except Exception as e:      # noqa  - MPF raised on an operation of the alphabet
                import traceback
                tb = traceback.extract_tb(e.__traceback__)
                where = next((f for f in reversed(tb) if "/mpf/" in f.filename), tb[-1])
                self.violate("EXC:%s" % type(e).__name__, "operation %r raised %r at %s:%s" %
                             (choice, e, os.path.basename(where.filename), where.lineno))
        self.check_errors(choice)
        self.oracle(choice)

    def after_time(self):
        pass

    # -- helpers ----------------------------------------------------------------------------
    def stat(self, name, n=1):
        self.stats[name] = self.stats.get(name, 0) + n

    def violate(self, sig, what):
        self.violations.append((sig, "%s  [history: %s]" % (what, self.log)))

    def check_errors(self, where):
        errs = self.loop.unhandled()
        if errs:
            e = errs[0]
            exc = e.get("exception")
            self.violate("EXC:%s" % (type(exc).__name__ if exc else "loop"),
                         "unhandled exception after %r: %r / %s" % (where, exc, e.get("message")))
            self.loop.exc_log = []

    def rel_timers(self):
        now = self.loop.time()
        out = []
        for h in self.loop.live_timers():
            cb = h._callback
            name = getattr(cb, "__qualname__", None) or getattr(getattr(cb, "func", None), "__qualname__", None) \
                or type(cb).__name__
            out.append((r6(h._when - now), name))
        return tuple(sorted(out))

    def task_fp(self):
        out = []
        for t in asyncio.all_tasks(self.loop):
            chain = []
            c = t.get_coro()
            while c is not None and len(chain) < 12:
                fr = getattr(c, "cr_frame", None) or getattr(c, "gi_frame", None)
                code = getattr(c, "cr_code", None) or getattr(c, "gi_code", None)
                if fr is None:
                    break
                chain.append((code.co_name if code else "?", fr.f_lasti))
                c = getattr(c, "cr_await", None) or getattr(c, "gi_yieldfrom", None)
            out.append(tuple(chain))
        return tuple(sorted(out))

    def modes_fp(self):
        return tuple(sorted((n, bool(md.active), bool(md.starting), bool(md.stopping)) for n, md in self.m.modes.items()
                            if md.active or md.starting or md.stopping))

    def handler_fp(self):
        out = []
        for ev, lst in self.m.events.registered_handlers.items():
            for h in lst:
                cb = h.callback
                name = getattr(cb, "__qualname__", None) or getattr(getattr(cb, "func", None), "__qualname__", "") \
                    or type(cb).__name__
                out.append((ev, name, h.priority, str(h.condition.text) if h.condition is not None and
                            hasattr(h.condition, "text") else (None if h.condition is None else "cond")))
        return tuple(sorted(out, key=repr))

    # -- to be provided ---------------------------------------------------------------------
    def ops(self):
        return []

    def do_op(self, op):
        raise NotImplementedError

    def oracle(self, choice):
        pass

    def fingerprint(self):
        return (self.rel_timers(),)

    def observe(self):
        return None
