"""Emulated serial ports for the harness loop.

`VClock.open_serial_connection` hands MPF a real `asyncio.StreamReader` and a writer object whose
`write()` records (virtual time, bytes) and passes the bytes to a board emulator.  Whatever the
emulator returns is fed to the reader at once (boot handshakes); after boot the check feeds the reader
itself, chunk by chunk, so every read split is the check's decision.
"""
import asyncio


class _Serial:
    def reset_input_buffer(self):
        pass


class VPort:
    """One emulated port: reader + writer/transport in one object."""

    def __init__(self, loop, url, responder=None):
        self.loop = loop
        self.url = url
        self.reader = asyncio.StreamReader(limit=2 ** 16, loop=loop)
        self.responder = responder      # callable(bytes) -> bytes or None
        self.written = []               # (time, bytes)
        self.serial = _Serial()
        self.transport = self
        self.closed = False

    # ---- writer / transport interface used by MPF -------------------------------------------------
    def write(self, data):
        data = bytes(data)
        self.written.append((self.loop.time(), data))
        if self.responder is not None:
            resp = self.responder(data)
            if resp:
                self.reader.feed_data(resp)

    async def drain(self):
        return None

    def set_write_buffer_limits(self, *a, **k):
        pass

    def get_extra_info(self, *a, **k):
        return None

    def is_closing(self):
        return self.closed

    def close(self):
        self.closed = True

    async def wait_closed(self):
        return None

    # ---- harness side -----------------------------------------------------------------------------
    def feed(self, data):
        """Deliver `data` as one read."""
        self.reader.feed_data(bytes(data))
        self.loop.drain()

    def take_written(self):
        w = self.written
        self.written = []
        return w
