"""Debug helper: show which fingerprint components differ (after one more step) for two histories."""
import sys, json
sys.path.insert(0, '/verif'); sys.path.insert(0, '/verif/props')
import importlib
mod = importlib.import_module(sys.argv[1])
fac = eval(sys.argv[2], vars(mod))
ha, hb, nxt = json.loads(sys.argv[3]), json.loads(sys.argv[4]), json.loads(sys.argv[5])
fps = []
for h in (ha, hb):
    d = fac(); d.boot()
    for c in h: d.step(c)
    f0 = d.fingerprint()
    d.step(nxt)
    fps.append((f0, d.fingerprint(), d.observe())); d.close()
print("equal before:", fps[0][0] == fps[1][0])
for a, b in zip(fps[0][1], fps[1][1]):
    if a != b: print("A", a, "\nB", b)
print(fps[0][2], "\n", fps[1][2])
