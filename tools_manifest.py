#!/usr/bin/env python3
"""Regenerates MANIFEST.json from the table below (run after adding a check)."""
import json, os
HERE = os.path.dirname(os.path.abspath(__file__))
props = [json.loads(l) for l in open(os.path.join(HERE, "properties.jsonl"))]

CHECKS = {
 "C01": dict(cat="model_checking",
   text="Exhaustive enumeration of all handler programs of six bounded families (posting forests, registry "
        "dynamics, registration histories, kwargs/conditions, boolean/relay kinds, posting contexts) executed on the "
        "real EventManager; every observed trace judged by monitors M1-M6 derived from the statement. Bounded "
        "completeness over programs, not a proof for unbounded programs.",
   note="Trusted: the harness virtual loop, the monitors in props/c01.py; bounds: <=3 (quick) / <=4 (thorough) "
        "handlers, <=2 actions per handler, 3 event names, posting depth <=3.",
   technique="exhaustive bounded enumeration of handler programs executed on the implementation + trace monitors",
   ref="3/C01"),
 "C13": dict(cat="model_checking",
   text="Explicit-state BFS (replay on a freshly booted machine, fork snapshots) over DelayManager operations on the "
        "machine-wide and a mode-owned manager (incl. stopping the owning mode with its stopping queue held and "
        "released later), clock.schedule_interval tasks and the timer device driven by its "
        "control events, with time choices on-time / late wake-up / before the deadline; a reference model is "
        "compared after every transition.",
   note="Trusted: virtual loop, reference models in props/c13.py. Bounds: BFS depth 4-7 (quick) / 6-10 (thorough), "
        "names {a,b,c,m}, durations {100,200} ms, intervals {0.25,0.5} s; time by representative points.",
   technique="explicit-state BFS of the implementation with a reference model (replay + fork snapshots)",
   ref="3/C13"),
 "C03": dict(cat="model_checking",
   text="Explicit-state BFS over switch reports (raw/logical, duplicates, NO/NC), handler add/remove with hold times "
        "and time choices on the real SwitchController; reference switch model (state, per-interval pending "
        "deadlines) compared after every transition, including is_active/is_inactive(ms) and configured events.",
   note="Trusted: virtual loop, reference model in props/c03.py. Bounds: depth 4-5 (quick) / 6 (thorough) per switch, "
        "hold times {0,100,200} ms; ignore_window_ms>0 only gets the weaker last-event check.",
   technique="explicit-state BFS of the implementation with a reference model (replay + fork snapshots)",
   ref="3/C03"),
 "C02": dict(cat="model_checking",
   text="Explicit-state BFS over handler scenarios (sync, waiting, self-clearing, async coroutine, nested queue event) "
        "and every order of clears/resolves/second posts until the frontier empties; exhaustive enumeration of "
        "relay/boolean handler lists; BFS over a use_wait_queue mode started by a queue event with waiting handlers "
        "on the outer and on the mode's own queue event.",
   note="Trusted: virtual loop, monitors in props/c02.py. Bounds: <=3/4 handlers per queue event, one nested and one "
        "concurrent queue event; relay/boolean lists <=4/5 handlers over 7 return values (incl. a blocking result), posted with and "
        "without kwargs, handlers with and without registered kwargs.",
   technique="explicit-state BFS of the implementation (replay + fork snapshots) + exhaustive enumeration",
   ref="3/C02"),
 "C18": dict(cat="model_checking",
   text="Explicit-state BFS (all configurations in one search, states of different configurations never merged) over "
        "count/step events, enable/disable/reset/restart/add/subtract/jump and time choices for counters across the "
        "configuration lattice, accruals and sequences; reference state machine from the statement compared after "
        "every transition (value/enabled/completed and the exact hit/complete/timeout events).",
   note="Trusted: virtual loop, reference model in props/c18.py. Bounds: depth 6 (quick, every 8th counter "
        "configuration rotated by VERIF_SEED + all accrual/sequence configurations) / 7 (thorough, all 192+16).",
   technique="explicit-state BFS of the implementation with a reference model (replay + fork snapshots)",
   ref="3/C18"),
 "C19": dict(cat="exploration",
   text="Exhaustive enumeration: every parameter dictionary with <=2 keys over a hazard-oriented value alphabet "
        "(+ nested values of depth <=2, special parameter names) through the real encoder/decoder with a "
        "type-exact equality oracle; every splitting with <=2 (quick) / <=3 (thorough) cut points plus the "
        "single-byte split of ordered message triples (with and without byte payloads) through the real "
        "BCPClientSocket.read_message and transport receive loop, dispatch order observed at the BCP interface.",
   note="Trusted: virtual loop, asyncio.StreamReader. Bounded by the value alphabet and message menu in props/c19.py; "
        "NaN excluded.",
   technique="exhaustive enumeration of inputs and read splittings executed on the implementation",
   ref="3/C19"),
 "C12": dict(cat="exploration",
   text="Exhaustive enumeration: every section of the loaded config spec x every key x a 46-value YAML-representable "
        "alphabet through the real validate_config_item with per-validator type/range predicates; section-level "
        "validation of constructible base configs (complete, typed defaults, unknown key rejected, missing required "
        "key rejected, provided key kept, spec deep-equal before/after); every unit suffix x numeric form through "
        "string_to_ms/string_to_secs against exact rational arithmetic.",
   note="Trusted: type predicates in props/c12.py (written per validator type from the spec documentation). One key "
        "perturbed at a time; any exception counts as rejection; sections needing devices the c12 machine lacks "
        "get item-level checks only.",
   technique="exhaustive enumeration of (section, key, value) inputs executed on the implementation",
   ref="3/C12"),
 "C16": dict(cat="model_checking",
   text="Exhaustive enumeration of every expression tree of the supported grammar with <=3 nodes over 19 leaves and "
        "4-5 (thorough 6) nodes over reduced leaf sets, evaluated by the real placeholder manager in a running game "
        "and compared (value and type) with Python's own evaluation one operator at a time; explicit-state BFS over "
        "variable-change histories for 20 subscribed templates, conditional event handlers and a condition-driven "
        "event_player entry with a freshness oracle after every change.",
   note="Trusted: virtual loop, Python's eval as reference. None results map to the template default; Python errors "
        "other than NameError/TypeError are not judged; BFS depth 4 (quick) / 5 (thorough).",
   technique="exhaustive bounded enumeration of expressions + explicit-state BFS of change histories on the implementation",
   ref="3/C16"),
 "C08": dict(cat="model_checking",
   text="Exhaustive enumeration of actuation requests (pulse/enable/timed_enable calls, control events with parameters, "
        "coil_player, dual-wound coil, digital output) x a duration/power alphabet incl. zero, negative, fractional and "
        "over-limit values x all 128 coils of the limit-configuration lattice, every command observed at the platform "
        "driver interface judged against the coil's envelope and every out-of-limit request required to raise without "
        "issuing a command; explicit-state BFS over pulse/enable/disable/timed-enable histories with pending software "
        "timers (software-timed pulse off in time, max_hold_duration watchdog, nothing left on at rest); flipper and "
        "autofire hardware rules incl. over-limit overwrites observed at set_*_rule; software flip.",
   note="Trusted: virtual platform driver interface wrappers, Envelope reference in props/c08.py. Covers the actuation "
        "paths that exist today; ball-device ejectors are exercised in C04/C05 machines only. BFS depth 6/7 on 8 "
        "(quick, rotated by VERIF_SEED) / 128 (thorough) configurations.",
   technique="exhaustive input enumeration + explicit-state BFS of histories on the implementation, envelope oracle at the driver interface",
   ref="3/C08"),
 "C20": dict(cat="model_checking",
   text="Explicit-state BFS over coin switches, service credits, credit events, start/add-player requests, game ends, "
        "expirations and free-play toggles for 6 pricing configurations on the real credits mode (fake game); the "
        "reference balance is computed with exact Fractions from the pricing table written out of the configuration; "
        "bounds 0..max, start gate, exact deduction, earnings audits and credit strings checked after every transition.",
   note="Trusted: virtual loop, Pricing reference in props/c20.py. What an expiry deadline does while free play is on or "
        "a game runs is not judged. BFS depth 5 (quick) / 7 (thorough).",
   technique="explicit-state BFS of the implementation with a reference model (replay + fork snapshots)",
   ref="3/C20"),
 "C09": dict(cat="model_checking",
   text="Explicit-state BFS over color/on/off/remove_from_stack_by_key/clear_stack commands with keys, priorities and "
        "fade times and time choices for single-channel, RGB and RGBW lights on the virtual back end, a software-faded "
        "light on a coil (drivers platform) and batched lights on the real PlatformBatchLightSystem behind a harness "
        "platform whose update-callback completion is an environment choice; reference stack from the statement; "
        "logical colour and the last brightness commanded to every hardware channel compared at rest; interpolation "
        "checked for fades started from rest.",
   note="Trusted: virtual loop, reference stack in props/c09.py. Which of two equal-priority entries wins is not judged; "
        "no colour-correction profile; BFS depth 3 (quick) / 4 (thorough), batched search depth 6 / 7 (with every update held by "
        "the environment, and with updates completing at once plus a settle macro step). At every instant the logical colour "
        "must lie within the bounding box of the entries of the stack and of those still fading out.",
   technique="explicit-state BFS of the implementation with a reference model (replay + fork snapshots)",
   ref="3/C09"),
 "C10": dict(cat="model_checking",
   text="Explicit-state BFS over enable/disable/sw_flip/sw_release requests, autofire hits (timeout protection), kickback "
        "and game lifecycle transitions (start, drain, tilt, slam tilt, service enter/exit, end game) with time, for "
        "dual-wound, single-wound and EOS/software-repulse flippers and plain/delayed/timeout-protected autofires on a "
        "fake game with the real tilt mode; after every transition the platform rule table must equal the rules of the "
        "enabled devices (wiring table), set_*_rule never installs a live rule twice, requests and lifecycle events "
        "decide the enabled state, and no flipper/autofire rule or energised flipper coil exists while no ball is in play.",
   note="Trusted: virtual platform rule table + call counting wrappers, wiring table in props/c10.py; the virtual platform "
        "gets a recording set_delayed_pulse_on_hit_rule. No ball search / real ball devices in this machine; BFS depth "
        "6 (quick) / 7 (thorough) per device group (flippers by request, autofires, and the EOS flipper through its physical "
        "button / end-of-stroke switches) with fingerprint merge audit.",
   technique="explicit-state BFS of the implementation with a reference model (replay + fork snapshots)",
   ref="3/C10"),
 "C07": dict(cat="model_checking",
   text="Explicit-state BFS over start/stop requests (direct and by event) for two modes, the same requests issued from "
        "environment-armed handlers of the mode's own lifecycle events, environment-held starting/stopping queue events "
        "cleared in any order, and time; oracles: per-mode automaton over the posted lifecycle events, active-mode list "
        "and its priority order, completion of accepted starts/stops at quiescence, responsiveness of an active mode "
        "(stop handler and devices present), and equality of the event/switch/delay/timer/device/light registries with "
        "the pre-start snapshot whenever everything has stopped.",
   note="Trusted: virtual loop, registry snapshot in props/c07.py (reads registries through their query attributes). "
        "Mode m1 has devices (incl. a ball save enabled by its events_when_stopped), config players and custom code with a 1 s "
        "delay that must never fire after a stop request; m2 uses a wait queue and can be started with a priority override. "
        "BFS depth 5 (quick) / 6 (thorough) with fingerprint merge audit.",
   technique="explicit-state BFS of the implementation with automaton + registry-diff oracles (replay + fork snapshots)",
   ref="3/C07"),
 "C04": dict(cat="model_checking",
   text="Real ball devices, playfield, ball controller and game mode on the plain virtual platform plus a physical world the "
        "harness owns (mc/world.py: balls at rest in a device / loose / in transit; switches derived from ball positions; coil "
        "pulses observed at the platform driver and answered by the exploration). Deviation-bounded stateless search: scripts "
        "of game actions taken at rest with default world answers; deviations (cost 1 each) are other outcomes of a coil pulse "
        "(falls back, does not move, arrives after the eject timeout, reaches the playfield without a switch hit), actions "
        "taken while devices are busy (drain, playfield switch, start, add ball, lock shot, plunge) and the other resolution "
        "of a simultaneous-completion race in Util.first. All executions with <=2 (quick) / <=3 (thorough: on the five one-ball "
        "scripts, <=2 on the others) deviations (one less for the three long scripts) run to rest. Oracles: counts within [0, capacity] always; no pulse towards a device without room; at rest device counts = "
        "physical counts, playfield count = loose balls, sum = num_balls_known = balls in the machine.",
   note="Trusted: mc/world.py, the deterministic Util.first replacement in props/c04.py. Bounds: the topologies and scripts "
        "listed in the evidence, transit menu, ideal switches, ball search off, balls never vanish; executions in which a ball "
        "physically reaches a full device are not judged at rest (switches cannot tell).",
   technique="deviation-bounded stateless exploration of the implementation against a harness-owned physical world",
   ref="3/C04"),
 "C05": dict(cat="model_checking",
   text="Same harness and executions as C04 (props/c04.py), the progress oracles: every execution comes to rest (no loop timer, "
        "no ball in transit, no unanswered pulse) within 400 default steps; at rest every device is idle or has reported itself "
        "broken, the playfield physically holds at least the balls the game has in play, no task died with an exception and "
        "the loop never livelocks. Bounded liveness: deviation bound 2 (quick) / 3 (thorough).",
   note="Liveness is decided as bounded liveness: each explored execution is run to rest with default answers. Same trusted "
        "base and bounds as C04.",
   technique="deviation-bounded stateless exploration of the implementation, bounded liveness at rest",
   ref="3/C05"),
 "C06": dict(cat="model_checking",
   text="Explicit-state BFS over start/add-player requests, drains, balls-in-play additions, extra-ball awards, end_ball / "
        "end_game events, tilt and slam tilt, with environment-held waiting handlers on each of the seven lifecycle queue "
        "events so that requests land inside every gap, for (balls_per_game, max_players) configurations on a game "
        "without ball devices and the real tilt mode; oracle: grammar automaton over the posted lifecycle events (nesting, "
        "player/ball numbers, turn order, extra balls, early end only after a request), balls-in-play bounds, a ball ends "
        "iff it drained to zero or an end was requested, machine.game cleared after game_ended.",
   note="Trusted: virtual loop, Grammar automaton in props/c06.py. Requests where the statement is silent (extra ball after "
        "an end-game request, tilt while already tilted) are not judged. BFS depth 5 on 3 configurations (quick) / 6 on 5 "
        "(thorough) with fingerprint merge audit, plus a focused long-game search (start / drain / extra ball / end ball / "
        "time, holding player_turn_starting) to depth 9 on 2 (quick) / 11 on 4 configurations (thorough). A slam tilt forfeits "
        "pending extra balls; what an end_game request does to them is not judged.",
   technique="explicit-state BFS of the implementation with a grammar automaton oracle (replay + fork snapshots)",
   ref="3/C06"),
 "C17": dict(cat="model_checking",
   text="Explicit-state BFS over play variants (speed, loops, start step, sync, priority), stop, pause, resume, advance, "
        "step_back, update(speed) and a second show on the same light, with time choices on time / woken late / before "
        "the deadline; reference schedule per running show from the statement: the step and played/looped/completed/"
        "stopped events of every transition must match, a step never runs early, the next step's timer must sit exactly "
        "on the schedule grid (no drift after late wake-ups), a stopped show leaves no light entry under its context; "
        "plus one long run (1000 loops, every 7th timer late) against the ideal grid.",
   note="Trusted: virtual loop, RefShow in props/c17.py. What resume/advance/step_back do to a show still waiting for its "
        "sync start, or holding on a step of duration -1, is not judged. BFS depth 5 (quick) / 6 (thorough), at most two shows at a "
        "time; a nested-show search (looping parent, every run of the nested show must look like the first) to depth 8 / 12.",
   technique="explicit-state BFS of the implementation with a reference schedule (replay + fork snapshots)",
   ref="3/C17"),
 "C11": dict(cat="model_checking",
   text="Explicit-state BFS over scoring/progress events (variable_player, persisted counter and accrual, shot with a "
        "3-state profile and persisted enable flag, achievement, timer ticks), drains, player adds, game end and new game "
        "in a 3-player 2-ball fake game with a game mode. Differential oracles: a progress event during a player's turn "
        "never changes another player's variables; the device view when a player's next ball starts equals the view when "
        "their previous ball ended; the first ball of a game starts from the configured initial values; every change of "
        "score/lives posts exactly one player_<var> event with the right value, prev_value, change and player_num.",
   note="Trusted: virtual loop, snapshots through public attributes. Timer ticks are checked for isolation only. BFS depth "
        "6 (quick) / 7 (thorough) over all operations, 9 / 11 over the timer operations, 10 / 12 over lane shots rotated by a "
        "shot group (same own history of lane operations => same lanes for every player), with fingerprint merge audit.",
   technique="explicit-state BFS of the implementation with differential (before/after, turn-to-turn) oracles",
   ref="3/C11"),
 "C14": dict(cat="model_checking",
   text="Real OPP, PKONE and FAST Neuron platforms booted over emulated serial ports (the harness owns every byte and read "
        "boundary). (A) Streams of valid frames under every splitting with <=2 (quick) / <=3 (thorough) cuts, single bytes and "
        "uniform chunks: decoded messages, switch changes and final switch states against an independent reference decoder "
        "(own CRC-8); every single-byte substitution / deletion / insertion / truncation / double substitution of a report, "
        "followed by three valid reports, delivered whole, bytewise and cut at the damage: every switch change must be "
        "justified by a well-formed frame contained in the bytes, the reader must survive and not spin, final states equal "
        "the last valid report. (B) Explicit-state BFS (depth 5 / 7) over FAST command submissions (confirmed, unconfirmed, "
        "confirmed with retries, real coil pulse), environment answers (confirmation, unrelated message, lost response) and "
        "time; oracle at the serial write seam: no write while a confirmation is awaited, FIFO order, lost responses "
        "re-sent as configured, nothing blocked for ever. Known findings are explored past.",
   note="Trusted: emulated serial port (mc/serial.py), boot-handshake board emulators (props/c14_boards.py), reference decoders and "
        "CRC-8 in props/c14.py. For FAST and PKONE (no checksum) 'malformed' means outside the frame grammar. Resynchronisation is "
        "judged after three valid reports. Corruptions are single faults plus adjacent double substitutions and one burst; "
        "flow control: at most three submitted commands per history. Three known findings (FAST writer never pauses, lost "
        "response never retried, undecodable byte fatal) are printed as KNOWN-FINDING.",
   technique="exhaustive enumeration of read splittings and single-fault corruptions on the real decoders + explicit-state BFS of "
             "the real FAST writer with environment-chosen responses",
   ref="3/C14"),
 "C15": dict(cat="fault_enumeration",
   text="Stateless preemption-bounded exploration of the real DataManager/FileManager/YamlInterface: writer thread(s) and "
        "ten main-thread scripts (save_all / wait / shutdown, one or two managers, waits chosen to collide with the 1 s "
        "rate limit) run as real threads under a baton scheduler with scheduling points at every Event/Lock/sleep/file-"
        "system primitive and every source line of data_manager.py and file_manager.py, virtual time, in-memory file "
        "system. Every schedule with <=1 (quick) / <=2 (thorough) preemptions runs to completion; oracles: last saved "
        "data on disk after clean shutdown; at every prefix of the file-system operation log (incl. inside a write) the "
        "file is absent or one complete saved version; with one injected I/O error at each of the operations a later "
        "save is written and nothing spins forever. Plus YAML value round trips and persisted machine variables with "
        "expiry across a simulated reboot.",
   note="Trusted: baton scheduler (mc/threads.py), in-memory FS (mc/memfs.py). Process-crash model (no fsync in MPF, power "
        "loss out of scope); deepcopy atomic; a fresh YAML dumper object per execution; thorough is capped at 30000 "
        "schedules per script (reported in the evidence).",
   technique="stateless preemption-bounded schedule enumeration + crash-prefix and fault-position enumeration on the implementation",
   ref="3/C15"),
}
NOT_YET = "check not built yet in this revision (planned, see DESIGN.md section 7)"

checks, na = [], []
for p in props:
    pid = p["id"]
    if pid in CHECKS:
        c = CHECKS[pid]
        checks.append({
            "property_id": pid,
            "quick_cmd": "./check %s --tier quick" % pid,
            "thorough_cmd": "./check %s --tier thorough" % pid,
            "evidence_file": "/verif/evidence/%s.json" % pid,
            "replay_cmd_template": "./check %s --replay {path}" % pid,
            "engine": "mc",
            "level_claimed": {"category": c["cat"], "text": c["text"], "design_ref": c["ref"]},
            "level_note": c["note"],
            "technique": c["technique"],
        })
    else:
        na.append({"property_id": pid, "reason": NOT_YET})
m = {
 "version": 1,
 "setup_cmd": "./setup.sh",
 "hooks": {"guard": "MPF_VERIF", "enable": "no source hooks: checks wrap instances and patch module attributes in-process",
           "baseline_off_cmd": "cd /repo && /venv/bin/python -m pytest -ra -q -p no:cacheprovider --timeout=900 --continue-on-collection-errors",
           "source_commits": [], "add_only": True},
 "engines": [{"name": "mc", "path": "/verif/mc", "serves_properties": sorted(CHECKS),
              "kind_free_text": "implementation-level explicit-state / stateless model checker for MPF on a harness-owned virtual asyncio loop (replay + fork snapshots), exhaustive bounded enumeration"}],
 "checks": checks,
 "not_applicable": na,
 "notes": "All checks explore the real code under /repo (sys.path bound, no models). See DESIGN.md.",
}
json.dump(m, open(os.path.join(HERE, "MANIFEST.json"), "w"), indent=1)
print("checks:", [c["property_id"] for c in checks], "na:", len(na))
