"""Custom mode code used by the C07 check: registers a mode event handler, a mode delay and a switch handler."""
from mpf.core.mode import Mode


class M1(Mode):

    def mode_start(self, **kwargs):
        self.add_mode_event_handler("m1_custom", self._custom)
        self.delay.add(ms=1000, callback=self._late, name="m1_delay")
        self.switch_handlers.append(
            self.machine.switch_controller.add_switch_handler("s1", self._switch, state=1, ms=0))

    def _custom(self, **kwargs):
        self.machine.events.post("m1_custom_seen")

    def _late(self, **kwargs):
        self.machine.events.post("m1_delay_fired")

    def _switch(self, **kwargs):
        self.machine.events.post("m1_switch_seen")
