"""Plain replays of the recorded known findings against the real code - no explorer involved.

Each function drives MPF along the one history named in known_findings.json and prints what it sees.
Run:  /venv/bin/python repro/known_findings.py   (prints one line per finding; exit status 0 always)
"""
import asyncio
import os
import sys

sys.path.insert(0, os.path.dirname(os.path.dirname(os.path.abspath(__file__))))
sys.path.insert(0, os.path.join(os.path.dirname(os.path.dirname(os.path.abspath(__file__))), "props"))

from mc.boot import System  # noqa: E402


def c01_dropped_at_post():
    s = System("null")
    em = s.machine.events
    got = []

    def first(**kwargs):
        del kwargs
        em.post("late")                                     # nobody listens yet: dropped here, at post time
        em.add_handler("late", late)                        # registered before "late" would be dispatched

    def late(**kwargs):
        got.append("late handled")
    em.add_handler("go", first)
    em.post("go")
    em.process_event_queue()
    s.loop.drain()
    print("C01 dropped-at-post: handler added before the dispatch of 'late' %s" % ("ran" if got else "never ran (event dropped at post)"))
    s.close()


def c12_pow2():
    s = System("null")
    from mpf.core.config_validator import ValidationPath
    v = s.machine.config_validator.validate_config_item(["single", "pow2", "None"], ValidationPath(ValidationPath(None, "section"), "key"), "128")
    print("C12 pow2: validate('128') returned %r (%s)" % (v, type(v).__name__))
    s.close()


def _fast():
    import c14
    return c14.Rig("fast")


def c14_writer_never_pauses():
    rig = _fast()
    rig.comm.send_with_confirmation("XA:1", "XA:P")
    rig.comm.send_with_confirmation("XA:2", "XA:P")
    rig.loop.drain()
    w = [d for _, d in rig.port.take_written()]
    print("C14 writer: two confirmed commands queued, no confirmation delivered, port has seen %r" % (w,))
    rig.sys.close()


def c14_lost_response_never_retried():
    rig = _fast()
    rig.comm.message_processors["ZA:"] = lambda msg: rig.comm.done_processing_msg_response()
    t = asyncio.ensure_future(rig.comm.send_and_wait_for_response_processed("ZA:1", "ZA:", timeout=1, max_retries=2))
    rig.loop.drain()
    rig.loop.advance(5.0)
    w = [(round(tm, 2), d) for tm, d in rig.port.take_written() if not d.startswith(b"WD")]
    print("C14 retry: timeout=1 max_retries=2, response lost, after 5 s the port has seen %r; caller done=%s" % (w, t.done()))
    rig.sys.close()


def c14_undecodable_byte():
    rig = _fast()
    res = rig.run([b"-L:\x8001\r", b"-L:01\r"])
    print("C14 undecodable byte: reader alive=%s, error=%s, switch 1 state=%s" % (res["alive"], res["error"], res["states"].get("1")))
    rig.sys.close()


def c04_transients():
    import c04
    d = c04.make_driver("lock-shot")()
    d.boot()
    seen = []
    for c in [["start"], ["kick", "bd_trough", "ok"], "T", "T", "T", ["kick", "bd_plunger", "silent"], "T", "T", "T", ["shoot", "bd_lock"],
              ["kick", "bd_lock", "ok"], "T", "T", "T", "T"]:
        d.step(c)
        seen.append(d.m.playfield.balls)
    print("C04 playfield transient: playfield.balls over the history = %r" % (seen,))
    d.close()
    d = c04.make_driver("saucer-shot")()
    d.boot()
    seen = []
    hist = [["start"], ["kick", "bd_trough", "ok"], "T", "T", "T", ["kick", "bd_plunger", "ok"], "T", "T", ["shoot", "bd_saucer"], "T",
            ["kick", "bd_saucer", "silent"], "T", "T", "T", ["shoot", "bd_saucer"], "T", "T"]
    for c in hist:
        d.step(c)
        seen.append(d.m.ball_devices["bd_saucer"].balls)
    print("C04 device transient: bd_saucer.balls over the history = %r" % (seen,))
    d.close()


def c04_two_sources_double_eject():
    import c04
    d = c04.make_driver("vuk-to-plunger")()
    d.boot()
    for c in [["start"], ["kick", "bd_trough", "ok"], "T", "T", "T", ["kick", "bd_plunger", "ok"], "T", "T", ["shoot", "bd_vuk"], "T",
              ["add"], ["kick", "bd_vuk", "ok"], "T"]:
        d.step(c)
    print("C04 two sources, one place: %s" % ([s for s, _ in d.violations if "fired-at-full" in s] or "no coil fired at a full device",))
    print("    world log (pulse/kick/arrive): %r" % (d.w.log[-6:],))
    d.finish()
    pl = d.m.ball_devices["bd_plunger"]
    print("    at rest: bd_plunger state=%s available_balls=%d; playfield balls=%d available_balls=%d" %
          (pl.state, pl.available_balls, d.m.playfield.balls, d.m.playfield.available_balls))
    d.close()


if __name__ == "__main__":
    for f in (c01_dropped_at_post, c12_pow2, c14_writer_never_pauses, c14_lost_response_never_retried, c14_undecodable_byte,
              c04_transients, c04_two_sources_double_eject):
        try:
            f()
        except Exception as e:      # noqa
            print("%s: could not be replayed: %r" % (f.__name__, e))
